#!/bin/bash
# Runs the demonstration tests of recorded findings against the real code
# (injected with go test -overlay; nothing is written into /repo).
set -u
VERIF=$(cd "$(dirname "$0")/.." && pwd)
REPO=${LNCVC_REPO:-/repo}
work=$(mktemp -d)
trap 'rm -rf "$work"' EXIT
export GOFLAGS=-mod=mod GOPROXY=off GOTOOLCHAIN=auto
rc=0
for f in "$VERIF"/findings/*_test.go; do
  pkg=$(sed -n 's/^package //p' "$f" | head -1)
  echo "{\"Replace\":{\"$REPO/$pkg/zz_$(basename $f)\":\"$f\"}}" > "$work/ov.json"
  name=$(sed -n 's/^func \(TestLncvcFinding[A-Za-z0-9_]*\).*/\1/p' "$f" | head -1)
  (cd "$REPO/$pkg" && go test -overlay "$work/ov.json" -vet=off -count=1 -timeout 120s -run "^$name\$" -v . 2>&1 | tail -8)
done
exit $rc
