package mailbox

// Demonstration of defect F5 (property C04; repaired by a fix: commit): with
// handshake version 0 the responder's auth payload travels in a fixed 500-byte
// field. A payload longer than 498 bytes was silently cut off while its 16-bit
// length prefix announced the full length: both sides completed the handshake
// and the initiator held a payload different from the responder's.
// The test fails on the pre-fix code and passes on the repaired code.

import (
	"bytes"
	"net"
	"testing"

	"github.com/btcsuite/btcd/btcec/v2"
	"github.com/lightningnetwork/lnd/keychain"
)

func TestLncvcFindingF5V0PayloadTruncation(t *testing.T) {
	pass := []byte("top secret")
	auth := bytes.Repeat([]byte{0xAB}, 600)
	c1, c2 := net.Pipe()
	defer c1.Close()
	defer c2.Close()

	mk := func(initiator bool, authData []byte) (*Machine, *ConnData) {
		priv, err := btcec.NewPrivateKey()
		if err != nil {
			t.Fatal(err)
		}
		cd := NewConnData(&keychain.PrivKeyECDH{PrivKey: priv}, nil, pass, authData, nil, nil)
		m, err := NewBrontideMachine(&BrontideMachineConfig{
			Initiator: initiator, HandshakePattern: XXPattern, ConnData: cd,
			MinHandshakeVersion: HandshakeVersion0, MaxHandshakeVersion: HandshakeVersion0,
		})
		if err != nil {
			t.Fatal(err)
		}
		return m, cd
	}
	client, clientData := mk(true, nil)
	server, _ := mk(false, auth)
	errs := make(chan error, 2)
	go func() { errs <- server.DoHandshake(c2) }()
	go func() { errs <- client.DoHandshake(c1) }()
	var failed bool
	for i := 0; i < 2; i++ {
		if err := <-errs; err != nil {
			t.Logf("handshake refused: %v", err)
			failed = true
			c1.Close()
			c2.Close()
		}
	}
	if failed {
		return // an oversized payload is rejected: fine
	}
	if !bytes.Equal(clientData.AuthData(), auth) {
		t.Fatalf("FINDING F5 REPRODUCED: both sides completed the handshake but the client holds a %d-byte payload "+
			"that differs from the server's %d bytes", len(clientData.AuthData()), len(auth))
	}
}
