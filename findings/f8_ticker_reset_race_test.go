package gbn

// Demonstration of defect F8 (property C18; repaired by a fix: commit): the
// send loop and the receive loop both call pingTicker.Reset(). Reset stops the
// clock goroutine with close(t.quit) and re-creates t.quit / t.ticker without
// any synchronisation, so two concurrent calls race on those fields and can
// close the same channel twice (panic: close of closed channel).
// The test fails on the pre-fix code and passes on the repaired code.

import (
	"sync"
	"sync/atomic"
	"testing"
	"time"
)

func TestLncvcFindingF8TickerResetRace(t *testing.T) {
	tk := NewIntervalAwareForceTicker(time.Hour)
	var panics int32
	var wg sync.WaitGroup
	for i := 0; i < 8; i++ {
		wg.Add(1)
		go func() {
			defer wg.Done()
			defer func() {
				if r := recover(); r != nil {
					atomic.AddInt32(&panics, 1)
				}
			}()
			for k := 0; k < 2000; k++ {
				tk.Reset()
			}
		}()
	}
	wg.Wait()
	if n := atomic.LoadInt32(&panics); n > 0 {
		t.Fatalf("FINDING F8 REPRODUCED: %d goroutines panicked in concurrent Reset (close of closed channel)", n)
	}
	tk.Stop()
}
