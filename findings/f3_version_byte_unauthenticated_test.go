package mailbox

// Demonstration of finding F3 (property C04; recorded as a known finding, not
// repaired): the cleartext handshake version byte at the head of each act is
// not mixed into the handshake transcript, so an active party on the relay
// can rewrite it without making any MAC fail. Here the responder answers with
// version 2, the attacker rewrites the act-2 version byte to 1 (the two
// versions share the act-2 payload format) and rewrites the initiator's act-3
// version byte back to 2. Both handshakes complete, yet the two parties hold
// different negotiated versions: the responder (v2) publishes the remote
// static key through SetRemote and moves to the key-based rendezvous, the
// initiator (v1) does not.
//
// The test FAILS while the finding is present.

import (
	"io"
	"net"
	"testing"
	"time"

	"github.com/btcsuite/btcd/btcec/v2"
	"github.com/lightningnetwork/lnd/keychain"
)

// f3Rewriter copies a->b and rewrites the first byte of the n-th write.
type f3Rewriter struct {
	net.Conn
	writes  int
	rewrite map[int]byte
}

func (c *f3Rewriter) Write(p []byte) (int, error) {
	q := append([]byte(nil), p...)
	if v, ok := c.rewrite[c.writes]; ok && len(q) > 0 {
		q[0] = v
	}
	c.writes++
	return c.Conn.Write(q)
}

func TestLncvcFindingF3VersionByteUnauthenticated(t *testing.T) {
	pass := []byte("top secret")
	c1, c2 := net.Pipe()
	defer c1.Close()
	defer c2.Close()

	var datas []*ConnData
	mk := func(initiator bool) *Machine {
		priv, err := btcec.NewPrivateKey()
		if err != nil {
			t.Fatal(err)
		}
		cd := NewConnData(&keychain.PrivKeyECDH{PrivKey: priv}, nil, pass, []byte("auth"), nil, nil)
		datas = append(datas, cd)
		m, err := NewBrontideMachine(&BrontideMachineConfig{
			Initiator: initiator, HandshakePattern: XXPattern, ConnData: cd,
			MinHandshakeVersion: HandshakeVersion0, MaxHandshakeVersion: HandshakeVersion2,
		})
		if err != nil {
			t.Fatal(err)
		}
		return m
	}
	client, server := mk(true), mk(false)

	// The attacker sits on each party's write side. Each act is written with
	// a single Write call by writeMsgPattern, so write #0 of the server is act
	// 2 and write #1 of the client is act 3.
	serverSide := &f3Rewriter{Conn: c2, rewrite: map[int]byte{0: HandshakeVersion1}}
	clientSide := &f3Rewriter{Conn: c1, rewrite: map[int]byte{1: HandshakeVersion2}}

	errs := make(chan error, 2)
	go func() { errs <- server.DoHandshake(serverSide) }()
	go func() { errs <- client.DoHandshake(clientSide) }()
	for i := 0; i < 2; i++ {
		select {
		case err := <-errs:
			if err != nil {
				// the tampering was detected: the property holds
				c1.Close()
				c2.Close()
				return
			}
		case <-time.After(10 * time.Second):
			t.Fatal("handshake timeout")
		}
	}
	_ = io.EOF
	if client.version != server.version {
		t.Fatalf("FINDING F3 REPRODUCED: both handshakes completed after the version bytes were rewritten in flight; "+
			"initiator holds version %d, responder version %d; responder stored the remote key: %v, initiator stored it: %v",
			client.version, server.version, datas[1].RemoteKey() != nil, datas[0].RemoteKey() != nil)
	}
}
