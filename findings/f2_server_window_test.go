package gbn

// Demonstration of defect F2 (properties C07, C09, C10; repaired by a fix:
// commit): the server adopted the window size N of a client SYN without
// validating it. N = 255 makes the sequence space s = N+1 wrap to 0: the send
// queue is created with zero slots and the first addPacket / recvSeq update
// divides by zero. N = 0 gives a window that can never hold a packet.
// The test fails on the pre-fix code and passes on the repaired code.

import (
	"context"
	"testing"
)

func TestLncvcFindingF2ServerAdoptsInvalidWindow(t *testing.T) {
	for _, n := range []uint8{255, 0} {
		script := [][]byte{{SYN, n}, {SYNACK}}
		i := 0
		recv := func(ctx context.Context) ([]byte, error) {
			if i < len(script) {
				b := script[i]
				i++
				return b, nil
			}
			<-ctx.Done()
			return nil, ctx.Err()
		}
		send := func(ctx context.Context, b []byte) error { return nil }
		ctx, cancel := context.WithCancel(context.Background())
		conn := newGoBackNConn(ctx, newConfig(send, recv, DefaultN), "server")
		err := conn.serverHandshake()
		cancel()
		if err != nil {
			t.Logf("N=%d: handshake rejected: %v", n, err)
			continue
		}
		if conn.cfg.s <= conn.cfg.n || conn.cfg.n == 0 {
			t.Errorf("FINDING F2 REPRODUCED: server entered the data phase with n=%d s=%d", conn.cfg.n, conn.cfg.s)
		}
		func() {
			defer func() {
				if p := recover(); p != nil {
					t.Errorf("FINDING F2 REPRODUCED: addPacket panics with the adopted window: %v", p)
				}
			}()
			conn.sendQueue.addPacket(&PacketData{})
		}()
	}
}
