package mailbox

// Demonstration of defect F4 (property C16; repaired by a fix: commit): the
// handshake parser read its fixed-size fields with a single r.Read call and
// ignored the byte count. Any transport that delivers a handshake act in more
// than one piece (here: one byte per Read) made a valid handshake fail.
// The test fails on the pre-fix code and passes on the repaired code.

import (
	"io"
	"net"
	"testing"
	"testing/iotest"

	"github.com/btcsuite/btcd/btcec/v2"
	"github.com/lightningnetwork/lnd/keychain"
)

type f4FragConn struct {
	net.Conn
	r io.Reader
}

func (c *f4FragConn) Read(b []byte) (int, error) { return c.r.Read(b) }

func TestLncvcFindingF4HandshakeShortReads(t *testing.T) {
	pass := []byte("top secret")
	c1, c2 := net.Pipe()
	defer c1.Close()
	defer c2.Close()

	mk := func(initiator bool) *Machine {
		priv, err := btcec.NewPrivateKey()
		if err != nil {
			t.Fatal(err)
		}
		cd := NewConnData(&keychain.PrivKeyECDH{PrivKey: priv}, nil, pass, []byte("auth"), nil, nil)
		m, err := NewBrontideMachine(&BrontideMachineConfig{
			Initiator: initiator, HandshakePattern: XXPattern, ConnData: cd,
			MinHandshakeVersion: MinHandshakeVersion, MaxHandshakeVersion: MaxHandshakeVersion,
		})
		if err != nil {
			t.Fatal(err)
		}
		return m
	}
	client, server := mk(true), mk(false)
	errs := make(chan error, 2)
	go func() { errs <- server.DoHandshake(&f4FragConn{Conn: c2, r: iotest.OneByteReader(c2)}) }()
	go func() { errs <- client.DoHandshake(&f4FragConn{Conn: c1, r: iotest.OneByteReader(c1)}) }()
	for i := 0; i < 2; i++ {
		if err := <-errs; err != nil {
			c1.Close()
			c2.Close()
			t.Fatalf("FINDING F4 REPRODUCED: a valid handshake fails when the transport fragments reads: %v", err)
		}
	}
}
