package gbn

// Demonstration of defect F10b (property C14, repaired by a fix: commit): a
// Send that hit its send timeout in the middle of a chunked message had already
// handed non-final chunks to the send loop; the retried Send was then merged
// with them on the peer (one Recv result of 60 bytes for a 40-byte message).
// The test fails on the pre-fix code and passes on the repaired code.
//
// Run (nothing is written into /repo):
//   cd /repo/gbn && go test -overlay <(echo '{"Replace":{"/repo/gbn/zz_f10b_test.go":"/verif/findings/f10b_send_timeout_test.go"}}') ...
// see /verif/findings/run.sh

import (
	"bytes"
	"context"
	"testing"
	"time"
)

func TestLncvcFindingF10bSendTimeoutMidMessage(t *testing.T) {
	s1Chan := make(chan []byte, 1000)
	s2Chan := make(chan []byte, 1000)
	rd := func(ch chan []byte) func(ctx context.Context) ([]byte, error) {
		return func(ctx context.Context) ([]byte, error) {
			select {
			case b := <-ch:
				return b, nil
			case <-ctx.Done():
				return nil, ctx.Err()
			}
		}
	}
	wr := func(ch chan []byte) func(ctx context.Context, b []byte) error {
		return func(ctx context.Context, b []byte) error {
			select {
			case ch <- b:
				return nil
			case <-ctx.Done():
				return ctx.Err()
			}
		}
	}
	// window of 2 packets, chunks of 4 bytes; the server does not Recv at
	// first, so its recvDataChan (capacity 2) and then the client's window
	// fill up and the client's Send blocks in the middle of the message.
	server, client, cleanup := setUpClientServerConns(
		t, 2, rd(s1Chan), rd(s2Chan), wr(s2Chan), wr(s1Chan),
		WithMaxSendSize(4),
	)
	defer cleanup()

	msg := bytes.Repeat([]byte("A"), 40) // 10 chunks
	client.SetSendTimeout(300 * time.Millisecond)
	done := make(chan error, 1)
	go func() {
		err := client.Send(msg)
		if err != nil {
			// the caller retries the whole message, as the property allows
			t.Logf("first Send failed: %v; retrying", err)
			client.SetSendTimeout(10 * time.Second)
			err = client.Send(msg)
		}
		done <- err
	}()

	// the peer only starts reading after the sender's deadline has passed
	time.Sleep(700 * time.Millisecond)
	server.SetRecvTimeout(10 * time.Second)
	got, err := server.Recv()
	if err != nil {
		t.Fatalf("Recv: %v", err)
	}
	if err := <-done; err != nil {
		t.Fatalf("Send: %v", err)
	}
	if !bytes.Equal(got, msg) {
		t.Fatalf("FINDING F10b REPRODUCED: Recv returned %d bytes, the sent message has %d "+
			"(chunks of the timed-out Send were merged with the retried message)", len(got), len(msg))
	}
}
