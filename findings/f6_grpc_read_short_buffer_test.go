package mailbox

// Demonstration of defect F6 (property C15; repaired by a fix: commit):
// NoiseGrpcConn.Read returned len(nextMsg) / len(record) / 32768 regardless of
// the size of the caller's buffer: with a small buffer it reported more bytes
// than the buffer holds and dropped the rest of the record.
// The test fails on the pre-fix code and passes on the repaired code.

import (
	"bytes"
	"testing"
)

func TestLncvcFindingF6GrpcReadShortBuffer(t *testing.T) {
	c := &NoiseGrpcConn{nextMsg: []byte("hello world")}
	var got []byte
	for i := 0; i < 20 && len(got) < 11; i++ {
		b := make([]byte, 4)
		n, err := c.Read(b)
		if err != nil {
			t.Fatalf("Read: %v", err)
		}
		if n > len(b) {
			t.Fatalf("FINDING F6 REPRODUCED: Read reported n=%d for a %d-byte buffer", n, len(b))
		}
		got = append(got, b[:n]...)
		if len(c.nextMsg) == 0 {
			break
		}
	}
	if !bytes.Equal(got, []byte("hello world")) {
		t.Fatalf("FINDING F6 REPRODUCED: read %q, want %q (bytes were lost)", got, "hello world")
	}
}
