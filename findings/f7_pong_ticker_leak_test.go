package gbn

// Demonstration of defect F7 (property C12; repaired by a fix: commit):
// GoBackNConn.Close stopped the ping ticker and the resend ticker but never
// the pong ticker, whose goroutine and time.Ticker outlived the connection.
// The test fails on the pre-fix code and passes on the repaired code.

import (
	"context"
	"testing"
)

func TestLncvcFindingF7PongTickerLeak(t *testing.T) {
	s1Chan := make(chan []byte, 100)
	s2Chan := make(chan []byte, 100)
	rd := func(ch chan []byte) func(ctx context.Context) ([]byte, error) {
		return func(ctx context.Context) ([]byte, error) {
			select {
			case b := <-ch:
				return b, nil
			case <-ctx.Done():
				return nil, ctx.Err()
			}
		}
	}
	wr := func(ch chan []byte) func(ctx context.Context, b []byte) error {
		return func(ctx context.Context, b []byte) error {
			select {
			case ch <- b:
				return nil
			case <-ctx.Done():
				return ctx.Err()
			}
		}
	}
	server, client, _ := setUpClientServerConns(t, 2, rd(s1Chan), rd(s2Chan), wr(s2Chan), wr(s1Chan))
	client.Close()
	server.Close()
	for name, c := range map[string]*GoBackNConn{"client": client, "server": server} {
		select {
		case <-c.pongTicker.quit:
		default:
			t.Errorf("FINDING F7 REPRODUCED: %s: the pong ticker is still running after Close", name)
		}
		select {
		case <-c.pingTicker.quit:
		default:
			t.Errorf("%s: the ping ticker is still running after Close", name)
		}
	}
}
