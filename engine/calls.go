package main

import (
	"fmt"
	"go/token"
	"go/types"
	"sort"
	"strings"

	"golang.org/x/tools/go/ssa"
)

// doCall dispatches a call: builtin, modelled stdlib function, function under
// contract (modular), inlinable function, interface dispatch, or unknown.
func (fr *Frame) doCall(cc *ssa.CallCommon, fnv Value, args []Value, pc *Term, st *State, pos token.Pos, site *ssa.Call) callResult {
	ex := fr.ex
	fr.curSite = site
	var resT types.Type = cc.Signature().Results()
	if cc.Signature().Results().Len() == 1 {
		resT = cc.Signature().Results().At(0).Type()
	}
	if b, ok := cc.Value.(*ssa.Builtin); ok && !cc.IsInvoke() {
		return fr.builtin(b, cc, args, pc, st, pos, resT)
	}
	if cc.IsInvoke() {
		return fr.invoke(cc, fnv, args, pc, st, pos, resT)
	}
	f, ok := fnv.(FuncV)
	if !ok {
		ex.note("call through unrepresentable function value in %s", fr.fn.Name())
		return callResult{val: ex.freshResult(resT, "call", st, pc), st: st}
	}
	if f.Fn == nil {
		ex.oblige("nil", "call "+exprAtPos(ex, pos), pos, pc, Neq(f.ID, RefNil()), "function value is not nil")
		if ex.ctx.chanDisc(cc.Value) == "logged" {
			// the call is recorded in the ghost event log "call" (first pointer
			// argument) and counted in the per-field log "call.<Type>.<field>"
			ref := RefNil()
			for _, a := range args {
				if p, ok := a.(PtrV); ok && p.Kind == PHeap {
					ref = p.Ref
					break
				}
			}
			ex.event(st, "call", ref, pc)
			ex.event(st, "call."+ex.ctx.fieldName(cc.Value), ref, pc)
		}
		if ex.ctx.isSink(cc.Value) {
			// remember the context the bytes are written under
			for i, a := range args {
				if iv, ok := a.(IfaceV); ok && i < cc.Signature().Params().Len() && typeKey(cc.Signature().Params().At(i).Type()) == "context.Context" {
					st.set("ctxmeta|sinkctx.tag", iv.Tag)
					st.set("ctxmeta|sinkctx.pay", iv.Pay)
					break
				}
			}
			for _, a := range args {
				if sl, ok := a.(SliceV); ok {
					if w, _, isInt := isIntType(sl.Elem); isInt && w == 8 {
						ex.ghostWrite(st, sl, sl.Len, pc)
					}
				}
			}
		}
		return fr.unknownCall(calleeText(cc), args, pc, st, resT, pos)
	}
	return fr.callStatic(f.Fn, args, f.Bind, pc, st, pos, resT)
}

func calleeText(cc *ssa.CallCommon) string {
	if cc.IsInvoke() {
		return "invoke " + typeKey(cc.Value.Type()) + "." + cc.Method.Name()
	}
	if f := cc.StaticCallee(); f != nil {
		return f.String()
	}
	return "dynamic call of " + cc.Value.Name() + " " + typeKey(cc.Value.Type())
}

func (ex *Exec) freshResult(t types.Type, hint string, st *State, pc *Term) Value {
	if tu, ok := t.(*types.Tuple); ok && tu.Len() == 0 {
		return TupleV{}
	}
	v := FreshV(t, hint)
	ex.wellFormed(st, v, pc)
	return v
}

func (fr *Frame) unknownCall(name string, args []Value, pc *Term, st *State, resT types.Type, pos token.Pos) callResult {
	ex := fr.ex
	ex.note("unmodelled call treated as effect-free on modelled state, result arbitrary: %s", name)
	v := ex.freshResult(resT, "ret", st, pc)
	for _, e := range ex.ctx.externs {
		if strings.Contains(name, e[0]) && e[1] == "nonnil" {
			ex.note("assumed (extern): results of %s are non-nil", e[0])
			ex.assumeNonNil(v, pc)
		}
	}
	return callResult{val: v, st: st}
}

func (fr *Frame) callStatic(fn *ssa.Function, args []Value, bind []Value, pc *Term, st *State, pos token.Pos, resT types.Type) callResult {
	ex := fr.ex
	name := fn.String()
	if fn.Origin() != nil {
		name = fn.Origin().String()
	}
	if ex.inInit && fn.Name() == "init" && fn.Pkg != nil && fn.Pkg != ex.root.Pkg {
		// initialisers of imported packages are not executed
		return callResult{val: TupleV{}, st: st}
	}
	if m, ok := stdModels[name]; ok {
		return m(fr, fn, args, pc, st, pos, resT)
	}
	unfold := false
	if rc := ex.ctx.contractFor(ex.root); rc != nil && contains(rc.Unfolds, fn.Name()) {
		unfold = true
	}
	if c := ex.ctx.contractFor(fn); c != nil && fn != ex.root && !c.Inline && !unfold {
		return fr.contractCall(c, fn, args, pc, st, pos, resT)
	}
	if fn.Blocks != nil && (unfold || ex.ctx.inlinable(fn)) && ex.depth < ex.maxInline && !ex.onStack(fn) {
		ex.depth++
		ex.stack = append(ex.stack, fn)
		r := ex.execFunction(fn, args, bind, st, pc, false)
		ex.stack = ex.stack[:len(ex.stack)-1]
		ex.depth--
		if r.pc == False {
			return callResult{val: ex.freshResult(resT, "noreturn", st, pc), st: st, pc: False}
		}
		if r.val == nil {
			r.val = TupleV{}
		}
		// callee may diverge/panic on some paths: the continuation holds under r.pc
		return callResult{val: r.val, st: r.st, pc: r.pc}
	}
	return fr.unknownCall(name, args, pc, st, resT, pos)
}

func (ex *Exec) onStack(fn *ssa.Function) bool {
	for _, f := range ex.stack {
		if f == fn {
			return true
		}
	}
	return false
}

// readerDiscipline (C16): a function that is handed the transport as an
// io.Reader / io.ReadWriter parameter reads from that value itself, not from a
// buffering wrapper that may consume bytes beyond what it returns.
func (ex *Exec) readerDiscipline(rd Value, pos token.Pos, pc *Term) {
	if !contains(ex.curProps, "C16") || ex.rootReader == nil || ex.dry > 0 {
		return
	}
	iv, ok := rd.(IfaceV)
	if !ok {
		return
	}
	saved := ex.clauseProps
	ex.clauseProps = []string{"C16"}
	ex.oblige("short-read", "reader "+exprAtPos(ex, pos), pos, pc, And(Eq(iv.Tag, ex.rootReader.Tag), Eq(iv.Pay, ex.rootReader.Pay)),
		"bytes are read from the transport that was handed in (a buffering wrapper would swallow what it reads ahead)")
	ex.clauseProps = saved
}

// invoke: interface method call. Dispatches over the concrete types of the
// analysed packages that implement the interface when the method is one the
// contracts care about; io.Reader / io.Writer get their library contract.
func (fr *Frame) invoke(cc *ssa.CallCommon, recv Value, args []Value, pc *Term, st *State, pos token.Pos, resT types.Type) callResult {
	ex := fr.ex
	mname := cc.Method.Name()
	sig := cc.Signature()
	if r, ok := fr.cryptoInvoke(cc, recv, args, pc, st, pos, resT); ok {
		return r
	}
	if isReadWriteSig(sig) && (mname == "Read" || mname == "Write") {
		if mname == "Read" {
			// framing must not depend on transport fragmentation: a plain Read may
			// return fewer bytes than the buffer holds, so its count must be used
			if fr.curSite != nil && !countUsed(fr.curSite) {
				saved := ex.clauseProps
				if contains(ex.curProps, "C16") {
					ex.clauseProps = []string{"C16"}
				}
				ex.oblige("short-read", exprAtPos(ex, pos), pos, pc, False,
					"the byte count of io.Reader.Read is ignored: a short read leaves the buffer partly filled (use io.ReadFull)")
				ex.clauseProps = saved
			}
			ex.readerDiscipline(recv, pos, pc)
			return fr.modelRead(args[0], pc, st, false)
		}
		return fr.modelWrite(args[0], pc, st)
	}
	iv, ok := recv.(IfaceV)
	if !ok {
		return fr.unknownCall(calleeText(cc), args, pc, st, resT, pos)
	}
	ex.oblige("nil", "invoke "+exprAtPos(ex, pos), pos, pc, Neq(iv.Tag, BV(0, 16)), "interface value is not nil")
	if typeKey(cc.Value.Type()) == "context.Context" && (mname == "Done" || mname == "Err") && len(args) == 0 {
		// context.Context: successive calls of Done return the same channel,
		// nothing is ever sent on it, and Err is non-nil exactly once it is closed
		ex.note("stdlib contract assumed: context.Context.Done/Err (Done returns the same close-only channel on every call; Err() != nil iff it is closed)")
		done := ctxDoneRef(iv)
		if mname == "Done" {
			return callResult{val: ChanV{Ref: done}, st: st}
		}
		e := ex.freshResult(resT, "ctxerr", st, pc)
		if ei, ok := e.(IfaceV); ok {
			cl := st.get("chclosed", SArr(SRef, SBool))
			ex.assume(pc, Eq(Neq(ei.Tag, BV(0, 16)), Select(cl, done)))
		}
		return callResult{val: e, st: st}
	}
	if typeKey(cc.Value.Type()) == "btclog.Logger" {
		// logging has no effect on the modelled state, whatever logger is installed
		return fr.unknownCall(calleeText(cc), args, pc, st, resT, pos)
	}
	impls := ex.ctx.implementations(cc.Value.Type(), cc.Method)
	if len(impls) == 0 || len(impls) > 12 {
		return fr.unknownCall(calleeText(cc), args, pc, st, resT, pos)
	}
	var conds []*Term
	var sts []*State
	var vals []Value
	var other []*Term
	for _, im := range impls {
		c := Eq(iv.Tag, ex.typeID(im.recvType))
		other = append(other, Not(c))
		if And(pc, c) == False {
			continue
		}
		s2 := st.clone()
		rv := ex.fromIface(iv, im.recvType)
		r := fr.callStatic(im.fn, append([]Value{rv}, args...), nil, And(pc, c), s2, pos, resT)
		conds = append(conds, c)
		sts = append(sts, r.st)
		vals = append(vals, r.val)
	}
	// unknown dynamic type
	oc := And(other...)
	if And(pc, oc) != False {
		r := fr.unknownCall(calleeText(cc), args, And(pc, oc), st.clone(), resT, pos)
		conds = append(conds, oc)
		sts = append(sts, r.st)
		vals = append(vals, r.val)
	}
	out := MergeStates(conds, sts)
	var val Value
	for i := len(vals) - 1; i >= 0; i-- {
		if val == nil {
			val = vals[i]
		} else {
			val = mergeSafe(conds[i], vals[i], val)
		}
	}
	return callResult{val: val, st: out}
}

func isReadWriteSig(sig *types.Signature) bool {
	if sig.Params().Len() != 1 || sig.Results().Len() != 2 {
		return false
	}
	sl, ok := sig.Params().At(0).Type().Underlying().(*types.Slice)
	if !ok {
		return false
	}
	b, ok := sl.Elem().Underlying().(*types.Basic)
	if !ok || b.Kind() != types.Uint8 {
		return false
	}
	if w, _, ok := isIntType(sig.Results().At(0).Type()); !ok || w != 64 {
		return false
	}
	return types.IsInterface(sig.Results().At(1).Type())
}

func (ex *Exec) errValue(isNil *Term, hint string) IfaceV {
	tag := Fresh(hint+".errtag", SBV(16))
	ex.assumes = append(ex.assumes, Eq(Eq(tag, BV(0, 16)), isNil))
	return IfaceV{tag, Fresh(hint+".errpay", SBV(64))}
}

// io.Reader.Read contract: 0 <= n <= len(p); p[0:n] receives arbitrary bytes;
// nothing else changes. full=true is io.ReadFull: err == nil <=> n == len(p).
func (fr *Frame) modelRead(buf Value, pc *Term, st *State, full bool) callResult {
	ex := fr.ex
	sl, ok := buf.(SliceV)
	if !ok {
		return callResult{val: FreshV(types.NewTuple(), "read"), st: st}
	}
	n := Fresh("read.n", SBV(64))
	ex.assume(pc, And(BVSle(BV(0, 64), n), BVSle(n, sl.Len)))
	isNil := Fresh("read.ok", SBool)
	if full {
		ex.assume(pc, Eq(isNil, Eq(n, sl.Len)))
	}
	err := ex.errValue(isNil, "read")
	// incoming bytes are arbitrary (the relay / adversary chooses them)
	src := Fresh("read.data", SByteArr)
	arr := ex.sliceArr(st, sl, 0, SBV(8))
	ex.setSliceArr(st, sl, 0, CopyArr(arr, sl.Off, src, BV(0, 64), n))
	ex.ghostAppend(st, "ioread", n)
	return callResult{val: TupleV{[]Value{IntV{n}, err}}, st: st}
}

// io.Writer.Write contract: 0 <= n <= len(p); n < len(p) ==> err != nil.
func (fr *Frame) modelWrite(buf Value, pc *Term, st *State) callResult {
	ex := fr.ex
	sl, ok := buf.(SliceV)
	if !ok {
		return callResult{val: FreshV(types.NewTuple(), "write"), st: st}
	}
	n := Fresh("write.n", SBV(64))
	ex.assume(pc, And(BVSle(BV(0, 64), n), BVSle(n, sl.Len)))
	isNil := Fresh("write.ok", SBool)
	ex.assume(pc, Implies(isNil, Eq(n, sl.Len)))
	err := ex.errValue(isNil, "write")
	ex.ghostWrite(st, sl, n, pc)
	return callResult{val: TupleV{[]Value{IntV{n}, err}}, st: st}
}

// bump increments a ghost event counter. Event counters are non-negative and
// do not overflow 2^62 (stated assumption: no execution performs 2^62 events).
func (ex *Exec) bump(pc, cur *Term) *Term {
	nv := BVAdd(cur, BV(1, 64))
	ex.assume(pc, And(BVSle(BV(0, 64), cur), BVSlt(cur, BV(1<<62, 64))))
	return nv
}

// ghostAppend adds n to a ghost counter.
func (ex *Exec) ghostAppend(st *State, name string, n *Term) {
	cur := st.get("ghost|"+name, SBV(64))
	st.set("ghost|"+name, BVAdd(cur, n))
}

// ghostWrite records the bytes accepted by an io.Writer in the ghost wire log:
// wire bytes [wlen, wlen+n) := sl[0:n].
func (ex *Exec) ghostWrite(st *State, sl SliceV, n *Term, pc *Term) {
	wl := st.get("ghost|wire.len", SBV(64))
	wa := st.get("ghost|wire.bytes", SByteArr)
	arr := ex.sliceArr(st, sl, 0, SBV(8))
	st.set("ghost|wire.bytes", CopyArr(wa, wl, arr, sl.Off, n))
	ex.assume(pc, And(BVSle(BV(0, 64), wl), BVSlt(wl, BV(1<<61, 64))))
	st.set("ghost|wire.len", BVAdd(wl, n))
	cnt := st.get("ghost|wire.calls", SBV(64))
	st.set("ghost|wire.calls", ex.bump(pc, cnt))
}

// ---------------------------------------------------------------- builtins

func (fr *Frame) builtin(b *ssa.Builtin, cc *ssa.CallCommon, args []Value, pc *Term, st *State, pos token.Pos, resT types.Type) callResult {
	ex := fr.ex
	switch b.Name() {
	case "len", "cap":
		switch x := args[0].(type) {
		case SliceV:
			if b.Name() == "len" {
				return callResult{val: IntV{x.Len}, st: st}
			}
			return callResult{val: IntV{x.Cap}, st: st}
		case StringV:
			return callResult{val: IntV{x.Len}, st: st}
		case ArrV:
			return callResult{val: IntV{BV(uint64(x.N), 64)}, st: st}
		case GoArrV:
			return callResult{val: IntV{BV(uint64(len(x.E)), 64)}, st: st}
		case ChanV:
			n := Fresh("chanlen", SBV(64))
			cp := Select(st.get("chcap", SArr(SRef, SBV(64))), x.Ref)
			if b.Name() == "cap" {
				return callResult{val: IntV{cp}, st: st}
			}
			ex.assume(pc, And(BVSle(BV(0, 64), n), BVSle(n, cp)))
			return callResult{val: IntV{n}, st: st}
		case MapV:
			n := Fresh("maplen", SBV(64))
			ex.assume(pc, BVSle(BV(0, 64), n))
			return callResult{val: IntV{n}, st: st}
		case PtrV:
			if at := arrayOf(cc.Args[0].Type()); at != nil {
				return callResult{val: IntV{BV(uint64(at.Len()), 64)}, st: st}
			}
		}
		return callResult{val: IntV{Fresh("len", SBV(64))}, st: st}
	case "copy":
		dst, ok1 := args[0].(SliceV)
		if !ok1 {
			return callResult{val: IntV{Fresh("copy", SBV(64))}, st: st}
		}
		switch src := args[1].(type) {
		case SliceV:
			n := Ite(BVSlt(dst.Len, src.Len), dst.Len, src.Len)
			if _, ok := scalarSort(dst.Elem); ok {
				es, _ := scalarSort(dst.Elem)
				da := ex.sliceArr(st, dst, 0, es)
				sa := ex.sliceArr(st, src, 0, es)
				ex.setSliceArr(st, dst, 0, CopyArr(da, dst.Off, sa, src.Off, n))
			} else {
				ex.note("copy of non-scalar elements havoc'd")
			}
			return callResult{val: IntV{n}, st: st}
		case StringV:
			n := Ite(BVSlt(dst.Len, src.Len), dst.Len, src.Len)
			da := ex.sliceArr(st, dst, 0, SBV(8))
			DeclareFun("strbytes", []string{SBV(64)}, SByteArr)
			ex.setSliceArr(st, dst, 0, CopyArr(da, dst.Off, App("strbytes", SByteArr, src.ID), BV(0, 64), n))
			return callResult{val: IntV{n}, st: st}
		}
		return callResult{val: IntV{Fresh("copy", SBV(64))}, st: st}
	case "append":
		s, ok1 := args[0].(SliceV)
		if !ok1 {
			return callResult{val: FreshV(resT, "append"), st: st}
		}
		var addLen *Term
		var srcArr func(k int, sort string) (*Term, *Term)
		switch e := args[1].(type) {
		case SliceV:
			addLen = e.Len
			srcArr = func(k int, sort string) (*Term, *Term) { return ex.sliceArr(st, e, k, sort), e.Off }
		case StringV:
			addLen = e.Len
			DeclareFun("strbytes", []string{SBV(64)}, SByteArr)
			srcArr = func(k int, sort string) (*Term, *Term) { return App("strbytes", SByteArr, e.ID), BV(0, 64) }
		default:
			return callResult{val: FreshV(resT, "append"), st: st}
		}
		nl := BVAdd(s.Len, addLen)
		cp := Fresh("append.cap", SBV(64))
		ex.assume(pc, And(BVSle(nl, cp), BVSle(cp, BV(1<<41, 64))))
		out := ex.allocSlice(st, s.Elem, nl, cp, pc, "append")
		for k, c := range ZeroV(s.Elem).comps() {
			base := ex.sliceArr(st, out, k, c.sort)
			a0 := ex.sliceArr(st, s, k, c.sort)
			a1, off1 := srcArr(k, c.sort)
			base = CopyArr(base, BV(0, 64), a0, s.Off, s.Len)
			base = CopyArr(base, s.Len, a1, off1, addLen)
			ex.setSliceArr(st, out, k, base)
		}
		ex.note("append modelled as always allocating a new backing array (no aliasing with the old one)")
		return callResult{val: out, st: st}
	case "close":
		ch, ok := args[0].(ChanV)
		if ok {
			cl := st.get("chclosed", SArr(SRef, SBool))
			ex.oblige("close", exprAtPos(ex, pos), pos, pc, And(Neq(ch.Ref, RefNil()), Not(Select(cl, ch.Ref))), "close of an open, non-nil channel")
			st.set("chclosed", Store(cl, ch.Ref, True))
			ex.event(st, "close", ch.Ref, pc)
		}
		return callResult{val: TupleV{}, st: st}
	case "delete":
		fr.mapDelete(args[0], args[1], cc.Args[0].Type(), pc, st)
		return callResult{val: TupleV{}, st: st}
	case "min", "max":
		_, signed, _ := isIntType(cc.Args[0].Type())
		cur := args[0].(IntV).T
		for _, a := range args[1:] {
			y := a.(IntV).T
			lt := BVUlt(y, cur)
			if signed {
				lt = BVSlt(y, cur)
			}
			if b.Name() == "min" {
				cur = Ite(lt, y, cur)
			} else {
				cur = Ite(lt, cur, y)
			}
		}
		return callResult{val: IntV{cur}, st: st}
	case "ssa:wrapnilchk":
		return callResult{val: args[0], st: st}
	case "ssa:deferstack":
		return callResult{val: OpaqueV{BV(0, 64)}, st: st}
	case "recover":
		return callResult{val: ZeroV(resT), st: st}
	case "print", "println":
		return callResult{val: TupleV{}, st: st}
	case "clear":
		ex.note("clear() havoc")
		return callResult{val: TupleV{}, st: st}
	case "new":
		return callResult{val: FreshV(resT, "new"), st: st}
	}
	panic("unsupported builtin " + b.Name())
}

func exprAtPos(ex *Exec, p token.Pos) string {
	if !p.IsValid() {
		return "?"
	}
	return ex.ctx.sourceAt(p)
}

// ---------------------------------------------------------------- events (ghost trace)

// event appends (kind, ref) to the ghost event trace.
func (ex *Exec) event(st *State, kind string, ref *Term, pc *Term) {
	n := st.get("ghost|ev."+kind+".n", SBV(64))
	a := st.get("ghost|ev."+kind+".ref", SArr(SBV(64), SRef))
	st.set("ghost|ev."+kind+".ref", Store(a, n, ref))
	st.set("ghost|ev."+kind+".n", ex.bump(pc, n))
}

// ---------------------------------------------------------------- channels

func (fr *Frame) chanRecv(ch Value, x *ssa.UnOp, pc *Term, st *State) Value {
	ex := fr.ex
	et := x.Type()
	if x.CommaOk {
		et = x.Type().(*types.Tuple).At(0).Type()
	}
	v := ex.freshResult(et, "recv", st, pc)
	if c, ok := ch.(ChanV); ok {
		ex.recvEvent(st, c, v, pc, et)
	}
	if ex.ctx.chanDisc(x.X) == "nonnil" {
		if p, ok := v.(PtrV); ok && p.Kind == PHeap {
			ex.assume(pc, Neq(p.Ref, RefNil()))
		}
	}
	if c, ok := ch.(ChanV); ok && ex.ctx.chanDisc(x.X) == "closeonly" {
		ex.assume(pc, Select(st.get("chclosed", SArr(SRef, SBool)), c.Ref))
	}
	if x.CommaOk {
		return TupleV{[]Value{v, BoolV{Fresh("recvok", SBool)}}}
	}
	return v
}

func chanLogKey(dir string, et types.Type) string { return "ghost|" + dir + "|" + typeKey(et) + "." }

func (ex *Exec) recvEvent(st *State, c ChanV, v Value, pc *Term, et types.Type) {
	k := chanLogKey("recv", et)
	n := st.get(k+"n", SBV(64))
	a := st.get(k+"ch", SArr(SBV(64), SRef))
	st.set(k+"ch", Store(a, n, c.Ref))
	if p, ok := v.(PtrV); ok && p.Kind == PHeap {
		va := st.get(k+"val", SArr(SBV(64), SRef))
		st.set(k+"val", Store(va, n, p.Ref))
	}
	st.set(k+"n", ex.bump(pc, n))
	cnt := st.get(k+"cnt", SArr(SRef, SBV(64)))
	st.set(k+"cnt", Store(cnt, c.Ref, ex.bump(pc, Select(cnt, c.Ref))))
}

func (fr *Frame) chanSend(ch Value, v Value, chExpr ssa.Value, pc *Term, st *State, pos token.Pos) {
	ex := fr.ex
	c, ok := ch.(ChanV)
	if !ok {
		return
	}
	if ex.ctx.chanDisc(chExpr) == "closeonly" {
		ex.oblige("chan-protocol", exprAtPos(ex, pos), pos, pc, False, "nothing is ever sent on a close-only channel")
	}
	if ex.ctx.chanDisc(chExpr) == "nonnil" {
		if p, ok := v.(PtrV); ok && p.Kind == PHeap {
			ex.oblige("chan-protocol", exprAtPos(ex, pos), pos, pc, Neq(p.Ref, RefNil()), "only non-nil values are sent on this channel")
		}
	}
	if ex.ctx.mayBeClosed(chExpr) {
		cl := st.get("chclosed", SArr(SRef, SBool))
		ex.oblige("send", exprAtPos(ex, pos), pos, pc, Not(Select(cl, c.Ref)), "send on a channel that is not closed")
	}
	k := chanLogKey("send", chanElem(chExpr.Type()))
	n := st.get(k+"n", SBV(64))
	a := st.get(k+"ch", SArr(SBV(64), SRef))
	st.set(k+"ch", Store(a, n, c.Ref))
	if p, ok := v.(PtrV); ok && p.Kind == PHeap {
		va := st.get(k+"val", SArr(SBV(64), SRef))
		st.set(k+"val", Store(va, n, p.Ref))
	}
	st.set(k+"n", ex.bump(pc, n))
	cnt := st.get(k+"cnt", SArr(SRef, SBV(64)))
	st.set(k+"cnt", Store(cnt, c.Ref, ex.bump(pc, Select(cnt, c.Ref))))
}

func (fr *Frame) selectInstr(x *ssa.Select, pc *Term, st *State) Value {
	ex := fr.ex
	n := len(x.States)
	idx := Fresh("select", SBV(64))
	lo := BV(0, 64)
	if !x.Blocking {
		lo = BVI(-1, 64)
	}
	ex.assume(pc, And(BVSle(lo, idx), BVSlt(idx, BV(uint64(n), 64))))
	res := []Value{IntV{idx}, BoolV{Fresh("select.ok", SBool)}}
	cl := st.get("chclosed", SArr(SRef, SBool))
	if x.Blocking && contains(ex.curProps, "C12") && (fr.isRoot || fr.fn == ex.sweepFn) {
		// shutdown discipline: a goroutine blocked in this select must be woken by
		// Close, i.e. one arm receives from a close-only channel (quit / ctx.Done)
		hasQuit := false
		for _, s := range x.States {
			if s.Dir == types.RecvOnly && (ex.ctx.chanDisc(s.Chan) == "closeonly" || isCtxDone(s.Chan)) {
				hasQuit = true
			}
		}
		saved := ex.clauseProps
		ex.clauseProps = []string{"C12"}
		if fr.fn == ex.sweepFn && contains(ex.curProps, "C18") {
			// a goroutine somebody waits for (wg.Wait under a mutex) that cannot
			// be woken is also a deadlock
			ex.clauseProps = []string{"C12", "C18"}
		}
		ex.oblige("select-quit", exprAtPos(ex, x.Pos()), x.Pos(), pc, Bool(hasQuit), "every blocking select has an arm on a quit channel closed by Close")
		ex.clauseProps = saved
	}
	var anyClosedRecv []*Term
	for i, s := range x.States {
		chv := fr.val(s.Chan)
		c, isChan := chv.(ChanV)
		taken := Eq(idx, BV(uint64(i), 64))
		if s.Dir == types.RecvOnly {
			et := s.Chan.Type().Underlying().(*types.Chan).Elem()
			v := ex.freshResult(et, "selrecv", st, pc)
			res = append(res, v)
			if ex.ctx.chanDisc(s.Chan) == "nonnil" {
				if p, ok := v.(PtrV); ok && p.Kind == PHeap {
					ex.assume(pc, Implies(taken, Neq(p.Ref, RefNil())))
				}
			}
			if (ex.ctx.chanDisc(s.Chan) == "closeonly" || isCtxDone(s.Chan)) && isChan {
				// nothing is ever sent on this channel: a receive succeeds only once it is closed
				ex.assume(pc, Implies(taken, Select(cl, c.Ref)))
			}
			if isChan {
				anyClosedRecv = append(anyClosedRecv, Select(cl, c.Ref))
				// ghost: record the receive when this case is taken
				s2 := st.clone()
				ex.recvEvent(s2, c, v, And(pc, taken), et)
				*st = *MergeStates([]*Term{taken, Not(taken)}, []*State{s2, st})
				// a nil channel is never ready
				ex.assume(pc, Implies(taken, Neq(c.Ref, RefNil())))
			}
		} else {
			if isChan {
				s2 := st.clone()
				fr.chanSend(c, fr.val(s.Send), s.Chan, And(pc, taken), s2, s.Pos)
				*st = *MergeStates([]*Term{taken, Not(taken)}, []*State{s2, st})
				ex.assume(pc, Implies(taken, Neq(c.Ref, RefNil())))
			}
		}
	}
	if !x.Blocking && len(anyClosedRecv) > 0 {
		// a receive from a closed channel is always ready, so default is not taken
		ex.assume(pc, Implies(Eq(idx, BVI(-1, 64)), Not(Or(anyClosedRecv...))))
	}
	return TupleV{res}
}

func (ex *Exec) goStmt(fr *Frame, x *ssa.Go, pc *Term, st *State) {
	name := "?"
	if f := x.Call.StaticCallee(); f != nil {
		name = f.Name()
	} else if mc, ok := x.Call.Value.(*ssa.MakeClosure); ok {
		name = mc.Fn.Name()
	}
	n := st.get("ghost|go.n", SBV(64))
	st.set("ghost|go.n", ex.bump(pc, n))
	mc, isLit := x.Call.Value.(*ssa.MakeClosure)
	if !isLit || !contains(ex.curProps, "C12") || !fr.isRoot || ex.dry > 0 {
		ex.note("go statement: %s spawned; its body is verified separately (if it has a contract)", name)
		return
	}
	// a function literal run as a goroutine: its body is swept for the
	// shutdown discipline (every blocking select has a quit arm, no plain
	// blocking channel operation without a free buffer slot)
	fv, ok := fr.val(mc).(FuncV)
	if !ok {
		return
	}
	var args []Value
	for _, a := range x.Call.Args {
		args = append(args, fr.val(a))
	}
	ex.note("go statement: body of %s swept for the shutdown discipline (C12)", name)
	ex.sweep++
	nAssume := len(ex.assumes)
	func() {
		defer func() {
			if r := recover(); r != nil {
				ex.note("goroutine sweep of %s incomplete: %v", name, r)
			}
		}()
		sfr := ex.newFrame(fv.Fn)
		_ = sfr
		ex.execSweep(fv.Fn, args, fv.Bind, st.clone(), pc)
	}()
	_ = nAssume
	ex.sweep--
}

// execSweep runs a goroutine body in sweep mode.
func (ex *Exec) execSweep(fn *ssa.Function, args, bind []Value, st *State, pc *Term) {
	ex.sweepFn = fn
	ex.execFunction(fn, args, bind, st, pc, false)
	ex.sweepFn = nil
}

// ---------------------------------------------------------------- maps

func mapNames(t types.Type) (string, *types.Map) {
	m := t.Underlying().(*types.Map)
	return "map|" + typeKey(m.Key()) + "|" + typeKey(m.Elem()), m
}

func keyTerm(k Value) (*Term, bool) {
	switch x := k.(type) {
	case IntV:
		return x.T, true
	case BoolV:
		return x.T, true
	case StringV:
		return x.ID, true
	case PtrV:
		if x.Kind == PHeap {
			return x.Ref, true
		}
	}
	return nil, false
}

func (ex *Exec) mapInit(st *State, t types.Type, r *Term) {
	base, m := mapNames(t)
	kz := ZeroV(m.Key())
	kt, ok := keyTerm(kz)
	if !ok {
		return
	}
	pn := base + "|present"
	pa := st.get(pn, SArr(SRef, SArr(kt.sort, SBool)))
	st.set(pn, Store(pa, r, ConstArr(SArr(kt.sort, SBool), False)))
}

func (fr *Frame) lookup(x *ssa.Lookup, pc *Term, st *State) Value {
	ex := fr.ex
	mv, ok := fr.val(x.X).(MapV)
	vt := x.Type()
	if x.CommaOk {
		vt = x.Type().(*types.Tuple).At(0).Type()
	}
	if !ok {
		// string indexing
		if s, ok := fr.val(x.X).(StringV); ok {
			idx := SignExtTo64(fr.val(x.Index).(IntV).T, x.Index.Type())
			ex.oblige("index", exprText(ex, x), posOf(x), pc, BVUlt(idx, s.Len), "index within string length")
		}
		return FreshV(x.Type(), "lookup")
	}
	base, m := mapNames(x.X.Type())
	kt, kok := keyTerm(fr.val(x.Index))
	if !kok {
		ex.note("map with unsupported key type %s havoc'd", typeKey(m.Key()))
		return FreshV(x.Type(), "lookup")
	}
	pa := Select(st.get(base+"|present", SArr(SRef, SArr(kt.sort, SBool))), mv.Ref)
	present := Select(pa, kt)
	k := 0
	stored := mkValue(vt, func(sort, hint string) *Term {
		a := Select(st.get(fmt.Sprintf("%s|val#%d", base, k), SArr(SRef, SArr(kt.sort, sort))), mv.Ref)
		k++
		return Select(a, kt)
	}, "")
	val := mergeSafe(present, stored, ZeroV(vt))
	if x.CommaOk {
		return TupleV{[]Value{val, BoolV{present}}}
	}
	return val
}

func (fr *Frame) mapUpdate(x *ssa.MapUpdate, pc *Term, st *State) {
	ex := fr.ex
	mv, ok := fr.val(x.Map).(MapV)
	if !ok {
		return
	}
	ex.oblige("nil", "map update "+exprText(ex, x), posOf(x), pc, Neq(mv.Ref, RefNil()), "assignment to entry in non-nil map")
	base, m := mapNames(x.Map.Type())
	kt, kok := keyTerm(fr.val(x.Key))
	if !kok {
		ex.note("map with unsupported key type %s havoc'd", typeKey(m.Key()))
		return
	}
	ex.guardedMap(st, x.Map, true, pc, posOf(x))
	pn := base + "|present"
	pm := st.get(pn, SArr(SRef, SArr(kt.sort, SBool)))
	st.set(pn, Store(pm, mv.Ref, Store(Select(pm, mv.Ref), kt, True)))
	v := fr.val(x.Value)
	for k, c := range v.comps() {
		vn := fmt.Sprintf("%s|val#%d", base, k)
		vm := st.get(vn, SArr(SRef, SArr(kt.sort, c.sort)))
		st.set(vn, Store(vm, mv.Ref, Store(Select(vm, mv.Ref), kt, c)))
	}
}

func (fr *Frame) mapDelete(mvv, key Value, mt types.Type, pc *Term, st *State) {
	mv, ok := mvv.(MapV)
	if !ok {
		return
	}
	base, _ := mapNames(mt)
	kt, kok := keyTerm(key)
	if !kok {
		return
	}
	pn := base + "|present"
	pm := st.get(pn, SArr(SRef, SArr(kt.sort, SBool)))
	st.set(pn, Store(pm, mv.Ref, Store(Select(pm, mv.Ref), kt, False)))
}

// ---------------------------------------------------------------- implementations

type implInfo struct {
	recvType types.Type
	fn       *ssa.Function
}

func (c *VerifCtx) implementations(ifaceT types.Type, m *types.Func) []implInfo {
	key := typeKey(ifaceT) + "." + m.Name()
	if r, ok := c.implCache[key]; ok {
		return r
	}
	iface, ok := ifaceT.Underlying().(*types.Interface)
	var out []implInfo
	if ok && ifaceT.String() != "error" {
		for _, p := range c.rootPkgs {
			sc := p.Pkg.Scope()
			for _, name := range sc.Names() {
				tn, ok := sc.Lookup(name).(*types.TypeName)
				if !ok || tn.IsAlias() {
					continue
				}
				if types.IsInterface(tn.Type()) {
					continue
				}
				for _, t := range []types.Type{tn.Type(), types.NewPointer(tn.Type())} {
					if types.Implements(t, iface) {
						ms := c.prog.MethodSets.MethodSet(t)
						sel := ms.Lookup(m.Pkg(), m.Name())
						if sel == nil {
							continue
						}
						fn := c.prog.MethodValue(sel)
						if fn != nil {
							out = append(out, implInfo{t, fn})
						}
						break
					}
				}
			}
		}
	}
	sort.Slice(out, func(i, j int) bool { return typeKey(out[i].recvType) < typeKey(out[j].recvType) })
	c.implCache[key] = out
	return out
}

func shortFn(fn *ssa.Function) string {
	s := fn.String()
	if i := strings.LastIndex(s, "/"); i >= 0 {
		s = s[i+1:]
	}
	return s
}

var _ = fmt.Sprintf

func (ex *Exec) assumeNonNil(v Value, pc *Term) {
	switch x := v.(type) {
	case IfaceV:
		ex.assume(pc, Neq(x.Tag, BV(0, 16)))
	case PtrV:
		if x.Kind == PHeap {
			ex.assume(pc, Neq(x.Ref, RefNil()))
		}
	case FuncV:
		if x.Fn == nil {
			ex.assume(pc, Neq(x.ID, RefNil()))
		}
	case ChanV:
		ex.assume(pc, Neq(x.Ref, RefNil()))
	case TupleV:
		// the trailing error of a multi-value result stays arbitrary, and the
		// other results are non-nil only when it is nil
		ok := pc
		if n := len(x.E); n > 1 {
			if ei, isErr := x.E[n-1].(IfaceV); isErr {
				ok = And(pc, Eq(ei.Tag, BV(0, 16)))
			}
		}
		for i, e := range x.E {
			if _, isErr := e.(IfaceV); isErr && len(x.E) > 1 && i == len(x.E)-1 {
				continue
			}
			ex.assumeNonNil(e, ok)
		}
	}
}

func chanElem(t types.Type) types.Type {
	if c, ok := t.Underlying().(*types.Chan); ok {
		return c.Elem()
	}
	return types.Typ[types.Invalid]
}

// ctxDoneRef: the channel ctx.Done() returns, a function of the context value.
func ctxDoneRef(iv IfaceV) *Term {
	DeclareFun("ctxdone", []string{SBV(16), SBV(64)}, SRef)
	return App("ctxdone", SRef, iv.Tag, iv.Pay)
}

// isCtxDone: the channel is the result of a ctx.Done() call.
func isCtxDone(v ssa.Value) bool {
	c, ok := v.(*ssa.Call)
	if !ok {
		return false
	}
	return c.Call.IsInvoke() && c.Call.Method.Name() == "Done"
}

// countUsed: the first result (n) of the call is used by some instruction.
func countUsed(site *ssa.Call) bool {
	refs := site.Referrers()
	if refs == nil {
		return true
	}
	for _, r := range *refs {
		ex, ok := r.(*ssa.Extract)
		if !ok || ex.Index != 0 {
			continue
		}
		if er := ex.Referrers(); er != nil {
			for _, u := range *er {
				if _, isDbg := u.(*ssa.DebugRef); !isDbg {
					return true
				}
			}
		}
	}
	return false
}
