package main

import (
	"crypto/sha256"
	"encoding/json"
	"fmt"
	"os"
	"path/filepath"
	"sort"
	"strconv"
	"strings"
	"time"
)

type Report struct {
	Ctx        *VerifCtx
	Results    []*FuncResult
	Prop       string
	Tier       string
	Verbose    bool
	Dump       string
	Scripts    map[*Obligation]string
	Verif      string
	LoadS      float64
	GenS       float64
	Start      time.Time
	NoEvidence bool
	NoReplay   bool
	Extra      []*ExtraResult // lemma instances etc.
}

// ExtraResult is an obligation discharged outside function verification
// (lemma files, bounded stand-ins).
type ExtraResult struct {
	Name    string
	Clause  string
	Status  string
	Solver  string
	Seconds float64
	Bounded bool
	Output  string
	Expect  string // "unsat" (proof obligation) or "sat" (cover / non-vacuity)
}

type KnownFinding struct {
	Property   string `json:"property"`
	Obligation string `json:"obligation"`
	What       string `json:"what"`
}
type FixedFinding struct {
	Property   string `json:"property"`
	Commit     string `json:"commit"`
	Obligation string `json:"obligation"`
	What       string `json:"what"`
}
type KnownFile struct {
	Findings []KnownFinding `json:"findings"`
	Fixed    []FixedFinding `json:"fixed"`
}

func loadKnown(verif string) *KnownFile {
	k := &KnownFile{}
	data, err := os.ReadFile(filepath.Join(verif, "known_findings.json"))
	if err == nil {
		json.Unmarshal(data, k)
	}
	return k
}

func reportLoadFailure(prop, verif string, err error) {
	if prop != "" {
		os.MkdirAll(filepath.Join(verif, "replays", prop), 0o755)
		p := filepath.Join(verif, "replays", prop, "load-failure.txt")
		os.WriteFile(p, []byte("obligation: load/contracts-bind\nThe repository no longer loads with its contracts (a function under contract was renamed, removed or changed signature, or the tree does not type-check):\n"+err.Error()+"\n"), 0o644)
		fmt.Printf("VIOLATION property=%s replay=%s no-failing-input-found\n", prop, p)
	}
}

func fileHash(path string) string {
	data, err := os.ReadFile(path)
	if err != nil {
		return ""
	}
	h := sha256.Sum256(data)
	return fmt.Sprintf("%x", h[:8])
}

func (r *Report) Finish() int {
	known := loadKnown(r.Verif)
	isKnown := func(prop, name string) *KnownFinding {
		for i := range known.Findings {
			f := &known.Findings[i]
			if f.Obligation == name && (f.Property == prop || prop == "") {
				return f
			}
		}
		return nil
	}
	total, ok := 0, 0
	type failure struct {
		o  *Obligation
		fr *FuncResult
	}
	var failed []failure
	engineErr := false
	var solverS float64
	crossChecked := 0
	backends := map[string]int{}
	var samples []map[string]any
	var abstractions []string
	var funcs []map[string]any
	coversOK, coversBad, coversUndecided := 0, 0, 0
	for _, fr := range r.Results {
		if fr.Err != "" {
			fmt.Printf("ENGINE-ERROR in %s: %s\n", fr.Name, fr.Err)
			engineErr = true
		}
		nf := 0
		for _, o := range fr.Obls {
			if o.Res.Status == "" {
				continue
			}
			total++
			nf++
			solverS += o.Res.Seconds
			if o.Res.Status == "unsat" {
				ok++
				backends[o.Res.Solver]++
				if o.Cross != "" {
					crossChecked++
				}
				if len(samples) < 12 && (o.Kind == "ensures" || o.Kind == "invariant-preserved" || len(samples) < 4) {
					samples = append(samples, map[string]any{"obligation": o.Name, "clause": o.Clause, "solver": o.Res.Solver, "seconds": round3(o.Res.Seconds)})
				}
				if r.Verbose {
					fmt.Printf("  ok   %-70s %s %.2fs\n", o.Name, o.Res.Solver, o.Res.Seconds)
				}
			} else {
				failed = append(failed, failure{o, fr})
			}
		}
		for _, cv := range fr.Covers {
			switch cv.Res.Status {
			case "unsat":
				fmt.Printf("VACUOUS: %s is unreachable under the assumed contracts (%s)\n", cv.Name, cv.Clause)
				if r.Dump != "" {
					os.MkdirAll(r.Dump, 0o755)
					os.WriteFile(filepath.Join(r.Dump, sanitize(cv.Name)+".smt2"), []byte(r.Scripts[cv]+"(check-sat)\n"), 0o644)
				}
				engineErr = true
				coversBad++
			case "sat", "dead-path":
				coversOK++
			default:
				coversUndecided++
			}
		}
		vac := "not-run"
		if fr.Vacuity != nil && fr.Vacuity.Res.Status != "" {
			vac = "satisfiable"
			if fr.Vacuity.Res.Status == "unsat" {
				fmt.Printf("VACUOUS: the assumptions of %s are contradictory\n", fr.Name)
				engineErr = true
				vac = "CONTRADICTORY"
			} else if fr.Vacuity.Res.Status != "sat" {
				vac = "undecided(" + fr.Vacuity.Res.Status + ")"
			}
		}
		for _, n := range fr.Notes {
			abstractions = append(abstractions, fr.Name+": "+n)
			if r.Verbose {
				fmt.Printf("  note %s: %s\n", fr.Name, n)
			}
		}
		src := ""
		if fr.Contract.Decl != nil {
			src = r.Ctx.fset.Position(fr.Contract.Decl.Pos()).Filename
		}
		funcs = append(funcs, map[string]any{"function": fr.Name, "obligations": nf, "source": src, "source_sha256_8": fileHash(src),
			"trusted": fr.Contract.Trusted, "requires_satisfiable": vac})
	}
	for _, e := range r.Extra {
		total++
		solverS += e.Seconds
		want := e.Expect
		if want == "" {
			want = "unsat"
		}
		if e.Status == want {
			ok++
			backends[e.Solver]++
			if len(samples) < 16 {
				samples = append(samples, map[string]any{"obligation": e.Name, "clause": e.Clause, "solver": e.Solver, "seconds": round3(e.Seconds)})
			}
			if r.Verbose {
				fmt.Printf("  ok   %-70s %s %.2fs\n", e.Name, e.Solver, e.Seconds)
			}
		} else {
			o := &Obligation{Name: e.Name, Kind: "lemma", Clause: e.Clause}
			o.Res = SolveResult{Status: e.Status, Solver: e.Solver, Seconds: e.Seconds, Output: e.Output}
			failed = append(failed, failure{o, nil})
		}
	}
	sort.SliceStable(failed, func(i, j int) bool { return failed[i].o.Name < failed[j].o.Name })
	violations := 0
	knownHit := 0
	var failedNames []string
	for _, f := range failed {
		o := f.o
		failedNames = append(failedNames, o.Name)
		fmt.Printf("  FAIL %-70s %s (%s, %.2fs) %s:%d  [%s]\n", o.Name, o.Res.Status, o.Res.Solver, o.Res.Seconds, filepath.Base(o.Pos.Filename), o.Pos.Line, o.Clause)
		if r.Dump != "" {
			os.MkdirAll(r.Dump, 0o755)
			os.WriteFile(filepath.Join(r.Dump, sanitize(o.Name)+".smt2"), []byte(r.Scripts[o]+"(check-sat)\n"), 0o644)
		}
		if kf := isKnown(r.Prop, o.Name); kf != nil {
			fmt.Printf("KNOWN-FINDING: property=%s %s (%s)\n", kf.Property, kf.What, o.Name)
			knownHit++
			continue
		}
		if r.Prop == "" {
			violations++
			continue
		}
		violations++
		dir := filepath.Join(r.Verif, "replays", r.Prop)
		os.MkdirAll(dir, 0o755)
		path := filepath.Join(dir, sanitize(o.Name)+".txt")
		var sb strings.Builder
		fmt.Fprintf(&sb, "property: %s\nobligation: %s\nfunction: %s\nkind: %s\nsource: %s:%d\nclause: %s\nsolver: %s -> %s (%.2fs)\n", r.Prop, o.Name, o.Func, o.Kind, o.Pos.Filename, o.Pos.Line, o.Clause, o.Res.Solver, o.Res.Status, o.Res.Seconds)
		if f.fr != nil && f.fr.Contract.Decl != nil {
			fmt.Fprintf(&sb, "package-dir: %s\n", filepath.Dir(r.Ctx.fset.Position(f.fr.Contract.Decl.Pos()).Filename))
		}
		suffix := " no-failing-input-found"
		if o.Res.Status == "sat" {
			sb.WriteString("\nmodel (probes):\n")
			for i, p := range o.Probes {
				if v, ok := o.Res.Model[fmt.Sprintf("?probe%d", i)]; ok {
					fmt.Fprintf(&sb, "  %s = %s\n", p.Name, v)
				}
			}
		} else {
			fmt.Fprintf(&sb, "\nsolver output:\n%s\n", o.Res.Output)
		}
		if f.fr != nil && !r.NoReplay {
			work, _ := os.MkdirTemp(scratch(), "replay-")
			rr := r.Ctx.makeReplay(f.fr, o, work)
			fmt.Fprintf(&sb, "\nreplay attempted: %v\nreplay reproduced on the real code: %v\nreplay verdict: %s\n", rr.Attempted, rr.Reproduced, rr.Why)
			if rr.Attempted {
				fmt.Fprintf(&sb, "\n--- replay test (injected with go test -overlay, nothing written to the repository) ---\n%s\n--- replay output ---\n%s\n", rr.Test, rr.Output)
			}
			if rr.Reproduced {
				suffix = ""
			}
			os.RemoveAll(work)
		}
		os.WriteFile(path, []byte(sb.String()), 0o644)
		fmt.Printf("VIOLATION property=%s replay=%s%s\n", r.Prop, path, suffix)
	}
	if engineErr && r.Prop != "" {
		dir := filepath.Join(r.Verif, "replays", r.Prop)
		os.MkdirAll(dir, 0o755)
		path := filepath.Join(dir, "engine-error.txt")
		var sb strings.Builder
		sb.WriteString("obligation: engine/generate\nThe verification conditions could not be generated (or the assumptions are contradictory); nothing is proved for this property on this tree.\n")
		for _, fr := range r.Results {
			if fr.Err != "" {
				fmt.Fprintf(&sb, "%s: %s\n", fr.Name, fr.Err)
			}
		}
		os.WriteFile(path, []byte(sb.String()), 0o644)
		fmt.Printf("VIOLATION property=%s replay=%s no-failing-input-found\n", r.Prop, path)
		violations++
	}
	wall := time.Since(r.Start).Seconds()
	fmt.Printf("lncvc: property=%s tier=%s: %d functions, %d obligations, %d discharged, %d failed (%d known findings), %d folded; load %.1fs gen %.1fs total %.1fs\n",
		r.Prop, r.Tier, len(r.Results), total, ok, len(failed), knownHit, r.Ctx.folded, r.LoadS, r.GenS, wall)

	if r.Prop != "" && !r.NoEvidence {
		seed, _ := strconv.Atoi(os.Getenv("VERIF_SEED"))
		var models []string
		for m := range r.Ctx.usedModels {
			models = append(models, m)
		}
		sort.Strings(models)
		sort.Strings(abstractions)
		var contractsCalled []string
		for k := range r.Ctx.calledContracts {
			contractsCalled = append(contractsCalled, k)
		}
		sort.Strings(contractsCalled)
		trusted := []string{
			"lncvc VC generator (go/ssa symbolic semantics, /verif/engine)",
			"golang.org/x/tools go/packages, go/types, go/ssa v0.29.0",
			"SMT solvers z3 5.1.0, z3 4.8.12, cvc5 1.0 (an obligation counts as discharged on the first unsat)",
		}
		for _, m := range models {
			trusted = append(trusted, "assumed library contract: "+m)
		}
		ev := map[string]any{
			"property_id": r.Prop,
			"tier":        r.Tier,
			"seed":        seed,
			"level":       "proof",
			"wall_s":      round3(wall),
			"violations":  violations,
			"coverage": map[string]any{
				"obligations":            total - knownHit,
				"discharged":             ok,
				"checker_cmd":            strings.Join(os.Args, " "),
				"trusted_base":           trusted,
				"samples":                samples,
				"functions_under_contract": funcs,
				"backends":               backends,
				"solver_seconds":         round3(solverS),
				"cross_checked":          crossChecked,
				"folded_by_generator":    r.Ctx.folded,
				"failed_obligations":     failedNames,
				"known_findings_hit":     knownHit,
				"abstractions":           abstractions,
				"callee_contracts_used":  contractsCalled,
				"bounded":                r.boundedList(),
				"vacuity_covers":         map[string]int{"reachable": coversOK, "unreachable": coversBad, "undecided": coversUndecided},
				"explanation":            "Every obligation is a verification condition generated from the current /repo source (go/ssa, build tag verif) and the //@ contracts in verif_contracts.go; 'discharged' counts obligations some solver answered unsat for. Obligations folded to true by the generator's constant folding are counted separately.",
			},
			"assumptions": append(append([]string{
				"integers are bit-vectors of the Go width (wrap-around modelled); no machine arithmetic is treated as mathematical in code VCs",
				"functions are verified sequentially: interference by other goroutines between statements is not modelled unless a contract names it",
				"references read from memory are nil or allocated; slice lengths are at most 2^40",
			}, r.modelAssumptions()...), abstractions...),
		}
		os.MkdirAll(filepath.Join(r.Verif, "evidence"), 0o755)
		data, _ := json.MarshalIndent(ev, "", " ")
		os.WriteFile(filepath.Join(r.Verif, "evidence", r.Prop+".json"), data, 0o644)
	}
	if violations > 0 {
		return 1
	}
	return 0
}

func (r *Report) boundedList() []map[string]any {
	var out []map[string]any
	for _, e := range r.Extra {
		if e.Bounded {
			out = append(out, map[string]any{"obligation": e.Name, "clause": e.Clause, "status": e.Status})
		}
	}
	return out
}

func (r *Report) modelAssumptions() []string {
	var out []string
	for m := range r.Ctx.usedModels {
		out = append(out, "stdlib contract assumed: "+m)
	}
	sort.Strings(out)
	return out
}

func round3(f float64) float64 { return float64(int(f*1000+0.5)) / 1000 }
