package main

// Root verification of one function against its contract: assume requires,
// execute, prove ensures, prove the frame.

import (
	"fmt"
	"go/constant"
	"go/ast"
	"go/token"
	"go/types"
	"sort"
	"strings"

	"golang.org/x/tools/go/ssa"
)

type FuncResult struct {
	Contract *Contract
	Name     string
	Obls     []*Obligation
	Notes    []string
	Err      string
	Folded   int
	Vacuity  *Obligation
	Covers   []*Obligation
	Assumes  []*Term
	Models   []string
	TypeIDs  map[int]types.Type
}

func (c *VerifCtx) verifyFunction(ct *Contract) (res *FuncResult) {
	res = &FuncResult{Contract: ct, Name: contractName(ct)}
	ex := NewExec(c)
	ex.root = ct.Fn
	ex.alloc0 = nil
	ex.rootName = res.Name
	ex.curProps = ct.Props
	defer func() {
		if r := recover(); r != nil {
			if os_debug {
				panic(r)
			}
			res.Err = fmt.Sprint(r)
			res.Obls = ex.obls
			res.Assumes = ex.assumes
		}
	}()
	fn := ct.Fn
	info := c.infoOf[ct.StubObj.Pkg()]
	st0 := NewState()
	ex.alloc0 = st0.get("alloc", SArr(SRef, SBool))
	TrueT := True
	ex.assumes = append(ex.assumes, And(BVSle(BV(0, 64), st0.get("ghost|clock", SBV(64))), BVSlt(st0.get("ghost|clock", SBV(64)), BV(1<<62, 64))))
	var args []Value
	for _, p := range fn.Params {
		v := FreshV(p.Type(), "arg."+p.Name())
		ex.wellFormed(st0, v, TrueT)
		args = append(args, v)
		if iv, isI := v.(IfaceV); isI && ex.rootReader == nil {
			switch typeKey(p.Type()) {
			case "io.Reader", "io.ReadWriter", "net.Conn", "io.ReadWriteCloser":
				c := iv
				ex.rootReader = &c
			}
		}
		ex.addProbes("arg."+p.Name(), v, p.Type(), st0, 3)
	}
	if ct.WithInit {
		// execute the package's variable initialisers (obligations suppressed:
		// they are not part of this function) so that tables such as the
		// handshake patterns have their declared values
		if initFn := fn.Pkg.Func("init"); initFn != nil && len(initFn.Blocks) > 0 {
			if g, ok := fn.Pkg.Members["init$guard"].(*ssa.Global); ok {
				st0.cells[ex.globalCell(g).id] = BoolV{False}
			}
			// package-level variables are zero before their initialisers run
			for _, mem := range fn.Pkg.Members {
				if g, ok := mem.(*ssa.Global); ok && g.Name() != "init$guard" {
					func() {
						defer func() { recover() }()
						c := ex.globalCell(g)
						st0.cells[c.id] = ZeroV(c.typ)
					}()
				}
			}
			ex.dry++
			ex.inInit = true
			r := ex.execFunction(initFn, nil, nil, st0, TrueT, false)
			ex.inInit = false
			ex.dry--
			if r.pc != False && r.st != nil {
				st0 = r.st
				ex.note("package initialisers executed symbolically to obtain the values of package-level tables")
			}
		}
	}
	env := &SpecEnv{vars: map[types.Object]Value{}, st: st0, old: st0}
	bindStubParams(ct, info, env, args)
	// package axioms (facts about package-level state established by init)
	if ax := c.axioms[fn.Pkg.Pkg]; ax != nil {
		for _, cl := range ax.Clauses {
			g := ex.assumeSpec(cl.Exprs[0], c.infoOf[ax.StubObj.Pkg()], &SpecEnv{vars: map[types.Object]Value{}, st: st0, old: st0}, TrueT)
			ex.assume(TrueT, g)
			ex.note("axiom assumed: %s", cl.Text)
		}
	}
	for _, cl := range ct.Clauses {
		if cl.Kind != "requires" {
			continue
		}
		for _, conj := range conjuncts(cl.Exprs[0]) {
			// requires held(&x.mu): the thread enters holding the lock
			if call, ok := conj.(*ast.CallExpr); ok {
				if id := calleeIdent(call.Fun); id != nil && (id.Name == "held" || id.Name == "rheld") {
					p := ex.evalSpec(call.Args[0], info, env, TrueT)
					mode := uint64(1)
					if id.Name == "rheld" {
						mode = 2
					}
					ex.dry++
					ex.store(st0, p, LockV{BV(mode, 8)}, TrueT, token.NoPos)
					ex.dry--
					if key, ok := mutexKey(p); ok {
						if rank, ok := c.lockRank[key]; ok {
							st0.set(rankCounter(rank), BVAdd(st0.get(rankCounter(rank), SBV(64)), BV(1, 64)))
						}
					}
					continue
				}
			}
			// requires same(x.f, v): the location holds exactly v on entry (stored,
			// so that tables reachable from it stay concrete)
			if call, ok := conj.(*ast.CallExpr); ok {
				if id := calleeIdent(call.Fun); id != nil && id.Name == "same" && len(call.Args) == 2 {
					if _, isSel := call.Args[0].(*ast.SelectorExpr); isSel {
						p := ex.specAddr(call.Args[0], info, env, TrueT)
						v := ex.evalSpec(call.Args[1], info, env, TrueT)
						ex.dry++
						ex.store(st0, p, v, TrueT, token.NoPos)
						ex.dry--
						continue
					}
				}
			}
			g := ex.assumeSpec(conj, info, env, TrueT)
			ex.assume(TrueT, g)
		}
	}
	if ct.Trusted {
		res.Notes = append(res.Notes, "trusted: contract assumed, body not verified")
		return res
	}
	pre := st0.clone()
	nPre := len(ex.assumes)
	r := ex.execFunction(fn, args, nil, st0, TrueT, true)
	_ = nPre
	if r.pc != False {
		env2 := &SpecEnv{vars: env.vars, st: r.st, old: pre}
		var resVals []Value
		switch v := r.val.(type) {
		case nil:
		case TupleV:
			if fn.Signature.Results().Len() > 1 {
				resVals = v.E
			} else if fn.Signature.Results().Len() == 1 {
				resVals = []Value{v}
			}
		default:
			resVals = []Value{v}
		}
		bindStubResults(ct, info, env2, resVals)
		for i, rv := range resVals {
			ex.addProbes(fmt.Sprintf("result%d", i), rv, fn.Signature.Results().At(i).Type(), r.st, 1)
		}
		for _, cl := range ct.Clauses {
			if cl.Kind != "ensures" {
				continue
			}
			ex.clauseProps = cl.Props
			for _, g := range ex.proveSplit(cl.Exprs[0], info, env2, r.pc) {
				n0 := len(ex.obls)
				ex.oblige("ensures", fmt.Sprintf("%d", cl.Index), ct.Stub.Pos(), r.pc, g, "ensures "+cl.Text)
				if len(ex.obls) > n0 {
					ex.obls[len(ex.obls)-1].Pos = token.Position{Filename: cl.File, Line: cl.Line}
				}
			}
			ex.clauseProps = nil
		}
		if !ct.NoFrame {
			ex.frameCheck(ct, info, env, pre, r.st, r.pc)
		}
	}
	// model probes for interface-typed arguments: fields of every dynamic type seen
	for i, p := range fn.Params {
		iv, ok := args[i].(IfaceV)
		if !ok {
			continue
		}
		for id, t := range ex.typeByID {
			pt, ok := t.(*types.Pointer)
			if !ok {
				continue
			}
			nt, ok := pt.Elem().(*types.Named)
			if !ok {
				continue
			}
			if _, ok := nt.Underlying().(*types.Struct); !ok {
				continue
			}
			_ = id
			pv := ex.fromIface(iv, t)
			ex.addProbes("arg."+p.Name()+".("+nt.Obj().Name()+")", pv, t, pre, 1)
		}
	}
	for _, o := range ex.obls {
		o.Probes = ex.probes
	}
	res.TypeIDs = ex.typeByID
	// vacuity: the assumptions at the end of the function must be satisfiable
	res.Vacuity = &Obligation{Name: res.Name + "/vacuity", Func: res.Name, Kind: "vacuity", PC: True, Goal: False, NAssume: len(ex.assumes), Clause: "requires and assumed facts are satisfiable (expected sat)"}
	res.Obls = ex.obls
	res.Covers = ex.covers
	res.Assumes = ex.assumes
	res.Folded = c.folded
	for k, n := range ex.notes {
		res.Notes = append(res.Notes, fmt.Sprintf("%s (x%d)", k, n))
	}
	sort.Strings(res.Notes)
	return res
}

var os_debug = false

// addProbes registers model probes for replay: scalar components of a value
// and (to a small depth) of what it points to.
func (ex *Exec) addProbes(name string, v Value, t types.Type, st *State, depth int) {
	switch x := v.(type) {
	case IntV:
		ex.probes = append(ex.probes, Probe{name, x.T})
	case BoolV:
		ex.probes = append(ex.probes, Probe{name, x.T})
	case TimeV:
		ex.probes = append(ex.probes, Probe{name, x.T})
	case IfaceV:
		ex.probes = append(ex.probes, Probe{name + ".tag", x.Tag}, Probe{name + ".pay", x.Pay})
	case SliceV:
		if x.St == StDyn {
			ex.probes = append(ex.probes, Probe{name + ".id", x.ID})
		}
		ex.probes = append(ex.probes, Probe{name + ".len", x.Len}, Probe{name + ".off", x.Off})
		if es, ok := scalarSort(x.Elem); ok {
			for i := 0; i < 8; i++ {
				arr := ex.sliceArr(st, x, 0, es)
				ex.probes = append(ex.probes, Probe{fmt.Sprintf("%s[%d]", name, i), SelectA(arr, BVAdd(x.Off, BV(uint64(i), 64)))})
			}
		}
	case PtrV:
		if x.Kind != PHeap || x.Root == nil {
			return
		}
		ex.probes = append(ex.probes, Probe{name, x.Ref})
		if depth <= 0 {
			return
		}
		if stt, ok := x.Root.Underlying().(*types.Struct); ok {
			for i := 0; i < stt.NumFields(); i++ {
				ft := stt.Field(i).Type()
				if isSpecialStruct(ft) != "" && isSpecialStruct(ft) != "time" {
					continue
				}
				ex.dry++
				fv := st.heapLoad(x.Root, []int{i}, x.Ref)
				ex.dry--
				ex.addProbes(name+"."+stt.Field(i).Name(), fv, ft, st, depth-1)
			}
		}
	case StructV:
		if stt, ok := x.Typ.Underlying().(*types.Struct); ok {
			for i, f := range x.F {
				ex.addProbes(name+"."+stt.Field(i).Name(), f, stt.Field(i).Type(), st, depth)
			}
		}
	case FuncV:
		if x.Fn == nil {
			ex.probes = append(ex.probes, Probe{name, x.ID})
		}
	case MapV:
		ex.probes = append(ex.probes, Probe{name, x.Ref})
	case ChanV:
		ex.probes = append(ex.probes, Probe{name, x.Ref})
	case ArrV:
		for i := int64(0); i < x.N && i < 16; i++ {
			ex.probes = append(ex.probes, Probe{fmt.Sprintf("%s[%d]", name, i), SelectA(x.A, BV(uint64(i), 64))})
		}
	}
}

// leafSlots enumerates the heap arrays under (root, path).
func leafSlots(root types.Type, path []int, out *[]string) {
	t := typeAt(root, path)
	if isAggregate(t) {
		switch u := types.Unalias(t).Underlying().(type) {
		case *types.Struct:
			for i := 0; i < u.NumFields(); i++ {
				leafSlots(root, appendPath(path, i), out)
			}
		case *types.Array:
			for i := 0; i < int(u.Len()); i++ {
				leafSlots(root, appendPath(path, i), out)
			}
		}
		return
	}
	for k := range ZeroV(t).comps() {
		*out = append(*out, heapName(root, path, k))
	}
}

// frameCheck: every heap array that changed may differ from its entry value
// only at locations named by a modifies clause or at objects allocated during
// the call.
func (ex *Exec) frameCheck(ct *Contract, info *types.Info, env *SpecEnv, pre, post *State, pc *Term) {
	allowed := map[string][]*Term{} // heap array name -> refs that may change
	wild := map[string]bool{}
	penv := &SpecEnv{vars: env.vars, st: pre, old: pre}
	for _, cl := range ct.Clauses {
		if cl.Kind != "modifies" {
			continue
		}
		for _, e := range cl.Exprs {
			ex.modTargets(e, info, penv, allowed, wild)
		}
	}
	var names []string
	for name := range post.heap {
		names = append(names, name)
	}
	sort.Strings(names)
	alloc0 := pre.get("alloc", SArr(SRef, SBool))
	for _, name := range names {
		if strings.HasPrefix(name, "ghost|") {
			// ghost state: a callee that changes a ghost log must declare it, since
			// callers assume undeclared logs unchanged
			grp := ghostGroup(name)
			if grp == "" || wild["ghostgroup:"+grp] || (strings.HasPrefix(grp, "events(") && wild["ghostgroup:events(\"*\")"]) {
				continue
			}
			fin := post.heap[name]
			ini := pre.get(name, fin.sort)
			if fin != ini {
				ex.oblige("frame", name, ct.Stub.Pos(), pc, Eq(fin, ini), "the ghost log "+grp+" is unchanged (or add `modifies "+grp+"` so that callers know)")
			}
			continue
		}
		if name == "alloc" || name == "chcap" || strings.HasPrefix(name, "ctxmeta|") || name == "chplain" {
			continue
		}
		fin := post.heap[name]
		ini := pre.get(name, fin.sort)
		if fin == ini || wild[name] {
			continue
		}
		if idxSort(fin.sort) != SRef {
			continue
		}
		k := Fresh("frame.k", SRef)
		conds := []*Term{Not(Select(alloc0, k))}
		for _, r := range allowed[name] {
			conds = append(conds, Eq(k, r))
		}
		conds = append(conds, Eq(Select(fin, k), Select(ini, k)))
		ex.oblige("frame", prettyHeapName(name), ct.Stub.Pos(), pc, Or(conds...), "nothing outside the modifies clauses changes: "+prettyHeapName(name))
	}
}

func prettyHeapName(n string) string { return n }

func (ex *Exec) modTargets(e ast.Expr, info *types.Info, pre *SpecEnv, allowed map[string][]*Term, wild map[string]bool) {
	switch x := e.(type) {
	case *ast.ParenExpr:
		ex.modTargets(x.X, info, pre, allowed, wild)
	case *ast.SelectorExpr:
		p, ok := ex.specAddr(x, info, pre, True).(PtrV)
		if !ok || p.Kind != PHeap {
			return
		}
		var slots []string
		leafSlots(p.Root, p.Path, &slots)
		for _, s := range slots {
			allowed[s] = append(allowed[s], p.Ref)
		}
	case *ast.StarExpr:
		p, ok := ex.evalSpec(x.X, info, pre, True).(PtrV)
		if ok && p.Kind == PHeap {
			var slots []string
			leafSlots(p.Root, p.Path, &slots)
			for _, s := range slots {
				allowed[s] = append(allowed[s], p.Ref)
			}
		}
	case *ast.CallExpr:
		id := calleeIdent(x.Fun)
		if id == nil {
			return
		}
		switch id.Name {
		case "elems":
			sl, ok := ex.evalSpec(x.Args[0], info, pre, True).(SliceV)
			if !ok {
				return
			}
			for k := range ZeroV(sl.Elem).comps() {
				switch sl.St {
				case StDyn:
					allowed[bmemName(sl.Elem, k)] = append(allowed[bmemName(sl.Elem, k)], sl.ID)
				case StField:
					allowed[heapName(sl.Root, sl.Path, 0)] = append(allowed[heapName(sl.Root, sl.Path, 0)], sl.ID)
				}
			}
		case "entries":
			m, ok := ex.evalSpec(x.Args[0], info, pre, True).(MapV)
			if !ok {
				return
			}
			base, mm := mapNames(info.Types[x.Args[0]].Type)
			allowed[base+"|present"] = append(allowed[base+"|present"], m.Ref)
			for k := range ZeroV(mm.Elem()).comps() {
				n := fmt.Sprintf("%s|val#%d", base, k)
				allowed[n] = append(allowed[n], m.Ref)
			}
		case "chanstate":
			ch, ok := ex.evalSpec(x.Args[0], info, pre, True).(ChanV)
			if ok {
				allowed["chclosed"] = append(allowed["chclosed"], ch.Ref)
			}
		case "wire":
			wild["ghostgroup:wire()"] = true
		case "chanlog":
			wild["ghostgroup:chanlog["+typeKey(info.Instances[id].TypeArgs.At(0))+"]()"] = true
		case "cryptolog":
			wild["ghostgroup:cryptolog()"] = true
		case "events":
			wild["ghostgroup:events(\""+constant.StringVal(info.Types[x.Args[0]].Value)+"\")"] = true
		case "anything":
			// modifies anything(): no frame claim at all for arrays matching the prefix
			for name := range heapSorts {
				wild[name] = true
			}
		}
	}
}

// ---------------------------------------------------------------- lock discipline (C18)

func structFieldIndex(t types.Type, name string) int {
	st, ok := types.Unalias(t).Underlying().(*types.Struct)
	if !ok {
		return -1
	}
	for i := 0; i < st.NumFields(); i++ {
		if st.Field(i).Name() == name {
			return i
		}
	}
	return -1
}

func rootFieldKey(p PtrV) (string, bool) {
	if p.Kind != PHeap || p.Root == nil || len(p.Path) == 0 {
		return "", false
	}
	nt, ok := types.Unalias(p.Root).(*types.Named)
	if !ok {
		return "", false
	}
	st, ok := nt.Underlying().(*types.Struct)
	if !ok || p.Path[0] >= st.NumFields() {
		return "", false
	}
	return nt.Obj().Name() + "." + st.Field(p.Path[0]).Name(), true
}

// guardedAccess generates the obligations of the declared field disciplines:
//   guarded_by m  - the access happens with mutex m of the same object held (write: exclusively),
//                   unless the object was allocated by the function itself (not yet shared)
//   atomic        - the access goes through sync/atomic
//   immutable     - written only while the object is not yet shared
//   owned         - written only by functions whose contract says `exclusive`
func (ex *Exec) guardedAccess(st *State, p PtrV, write bool, pc *Term, pos token.Pos) {
	if ex.dry > 0 || !contains(ex.curProps, "C18") {
		return
	}
	key, ok := rootFieldKey(p)
	if !ok {
		return
	}
	d, ok := ex.ctx.fieldDisc[key]
	if !ok {
		return
	}
	fresh := Not(Select(Var("H0|alloc", SArr(SRef, SBool)), p.Ref))
	mode := "read"
	if write {
		mode = "write"
	}
	saved := ex.clauseProps
	ex.clauseProps = []string{"C18"}
	defer func() { ex.clauseProps = saved }()
	switch d.Kind {
	case "guarded_by":
		mi := structFieldIndex(p.Root, d.Arg)
		if mi < 0 {
			panic(fmt.Sprintf("field %s is declared guarded_by %s, which is not a field of the same struct", key, d.Arg))
		}
		lv, ok := st.heapLoad(p.Root, []int{mi}, p.Ref).(LockV)
		if !ok {
			panic(fmt.Sprintf("%s.%s is not a mutex", typeKey(p.Root), d.Arg))
		}
		held := Eq(lv.Held, BV(1, 8))
		if !write {
			held = Or(held, Eq(lv.Held, BV(2, 8)))
		}
		ex.oblige("lock", "guarded "+mode+" "+key, pos, pc, Or(fresh, held), mode+" of "+key+" with "+d.Arg+" held")
	case "atomic":
		ex.oblige("lock", "atomic "+mode+" "+key, pos, pc, Or(fresh, Bool(ex.atomicAccess)), key+" is only accessed through sync/atomic")
	case "immutable":
		if write {
			ex.oblige("lock", "immutable write "+key, pos, pc, fresh, key+" is written only before the object is shared")
		}
	case "owned_by":
		if write {
			ct := ex.ctx.contractFor(ex.root)
			okRole := false
			if ct != nil && ct.Role != "" {
				for _, r := range strings.Split(d.Arg, ",") {
					if r == ct.Role {
						okRole = true
					}
				}
			}
			ex.oblige("lock", "owned_by write "+key, pos, pc, Or(fresh, Bool(okRole)), key+" is written only by the goroutine role(s) "+d.Arg)
		}
	case "owned":
		if write {
			ct := ex.ctx.contractFor(ex.root)
			excl := ct != nil && ct.Exclusive
			ex.oblige("lock", "owned write "+key, pos, pc, Or(fresh, Bool(excl)), key+" has no lock: it may only be written by a function declared `exclusive`")
		}
	}
}

func (ex *Exec) guardedMap(st *State, m ssa.Value, write bool, pc *Term, pos token.Pos) {}

func mutexKey(p Value) (string, bool) {
	x, ok := p.(PtrV)
	if !ok {
		return "", false
	}
	return rootFieldKey(x)
}

// waitHolding (C18): waiting for goroutines while holding a mutex that those
// goroutines may acquire deadlocks when one of them is blocked on it.
func (ex *Exec) waitHolding(st *State, wg Value, pc *Term, pos token.Pos) {
	if ex.dry > 0 || !contains(ex.curProps, "C18") {
		return
	}
	key, ok := mutexKey(wg)
	if !ok {
		return
	}
	var mus []string
	for m := range ex.ctx.wgLocks[key] {
		mus = append(mus, m)
	}
	sort.Strings(mus)
	saved := ex.clauseProps
	ex.clauseProps = []string{"C18"}
	defer func() { ex.clauseProps = saved }()
	for _, m := range mus {
		rank, ok := ex.ctx.lockRank[m]
		if !ok {
			continue
		}
		held := st.get(rankCounter(rank), SBV(64))
		ex.oblige("lock", "wait-holding "+m, pos, pc, Eq(held, BV(0, 64)),
			"no mutex "+m+" is held while waiting on "+key+": the goroutines waited for acquire it")
	}
}

func rankCounter(rank int) string { return fmt.Sprintf("ghost|lockheld.%02d", rank) }

// lockOrder: acquiring a mutex of rank r requires that no mutex of rank >= r is held.
func (ex *Exec) lockOrder(st *State, p Value, pc *Term, pos token.Pos) {
	if ex.dry > 0 || !contains(ex.curProps, "C18") {
		return
	}
	key, ok := mutexKey(p)
	if !ok {
		return
	}
	rank, ok := ex.ctx.lockRank[key]
	saved := ex.clauseProps
	ex.clauseProps = []string{"C18"}
	defer func() { ex.clauseProps = saved }()
	if !ok {
		ex.oblige("lock", "order "+key, pos, pc, False, "mutex "+key+" has no declared rank in the lockorder directive")
		return
	}
	ex.checkRankFree(st, key, rank, pc, pos)
	// the acquisition must be covered by the function's `acquires` declaration
	if ct := ex.ctx.contractFor(ex.root); ct != nil {
		ex.oblige("lock", "declared "+key, pos, pc, Bool(contains(ct.Acquires, key)), "the contract's acquires clause lists "+key)
	}
	c := st.get(rankCounter(rank), SBV(64))
	st.set(rankCounter(rank), BVAdd(c, BV(1, 64)))
}

func (ex *Exec) checkRankFree(st *State, key string, rank int, pc *Term, pos token.Pos) {
	for other, r2 := range ex.ctx.lockRank {
		_ = other
		if r2 < rank {
			continue
		}
	}
	seen := map[int]bool{}
	var conds []*Term
	for _, r2 := range ex.ctx.lockRank {
		if r2 < rank || seen[r2] {
			continue
		}
		seen[r2] = true
		conds = append(conds, Eq(st.get(rankCounter(r2), SBV(64)), BV(0, 64)))
	}
	ex.oblige("lock", "order "+key, pos, pc, And(conds...), "no mutex of the same or a later rank is held when "+key+" is acquired (lock order)")
}

func (ex *Exec) lockRelease(st *State, p Value) {
	key, ok := mutexKey(p)
	if !ok {
		return
	}
	if rank, ok := ex.ctx.lockRank[key]; ok {
		c := st.get(rankCounter(rank), SBV(64))
		st.set(rankCounter(rank), BVSub(c, BV(1, 64)))
	}
}

func (ex *Exec) onAcquire(fr *Frame, st *State, p Value, pc *Term) {}

func conjuncts(e ast.Expr) []ast.Expr {
	switch x := e.(type) {
	case *ast.ParenExpr:
		return conjuncts(x.X)
	case *ast.BinaryExpr:
		if x.Op == token.LAND {
			return append(conjuncts(x.X), conjuncts(x.Y)...)
		}
	}
	return []ast.Expr{e}
}

// ghostGroup: the modifies designator that covers a ghost state component
// ("" = exempt from the frame check).
func ghostGroup(name string) string {
	switch {
	case strings.HasPrefix(name, "ghost|wire."):
		return "wire()"
	case strings.HasPrefix(name, "ghost|send|"), strings.HasPrefix(name, "ghost|recv|"):
		rest := strings.SplitN(name, "|", 3)[2]
		if i := strings.LastIndex(rest, "."); i >= 0 {
			return "chanlog[" + rest[:i] + "]()"
		}
	case strings.HasPrefix(name, "ghost|seal."), strings.HasPrefix(name, "ghost|open."), strings.HasPrefix(name, "ghost|aead."),
		strings.HasPrefix(name, "ghost|hkdf."), strings.HasPrefix(name, "ghost|hash."), strings.HasPrefix(name, "ghost|hmac."):
		return "cryptolog()"
	case strings.HasPrefix(name, "ghost|ev."):
		rest := strings.TrimPrefix(name, "ghost|ev.")
		if i := strings.LastIndex(rest, "."); i >= 0 {
			return "events(\"" + rest[:i] + "\")"
		}
	case strings.HasPrefix(name, "ghost|lockheld."):
		return "lock balance"
	}
	return ""
}
