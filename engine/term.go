package main

// Hash-consed SMT terms with light constant folding.
//
// Sorts are represented by their SMT-LIB spelling. Integers of the Go program
// are fixed-width bit-vectors of the Go width (int = 64): every wrap-around of
// the machine arithmetic is modelled.

import (
	"fmt"
	"math/big"
	"sort"
	"strings"
)

const (
	SBool = "Bool"
	SRef  = "(_ BitVec 32)" // object references; 0 = nil
)

func SBV(w int) string { return fmt.Sprintf("(_ BitVec %d)", w) }
func SArr(idx, elem string) string {
	return "(Array " + idx + " " + elem + ")"
}

var SByteArr = SArr(SBV(64), SBV(8))

type Term struct {
	op    string // operator, or symbol name for leaves
	args  []*Term
	sort  string
	id    int
	leaf  bool     // declared constant (needs declare-const)
	lit   bool     // literal (bv / bool constant)
	val   *big.Int // value of a bv literal
	width int      // width for bv sorts, else 0
}

type TermBank struct {
	tab   map[string]*Term
	next  int
	fresh map[string]int
	// quantified axioms emitted verbatim (name -> text); declared funs
	funs  map[string]string // name -> "(declare-fun ...)" text
	order []string
}

var TB = &TermBank{tab: map[string]*Term{}, fresh: map[string]int{}, funs: map[string]string{}}

func bvWidth(sort string) int {
	var w int
	if n, _ := fmt.Sscanf(sort, "(_ BitVec %d)", &w); n == 1 {
		return w
	}
	return 0
}

func (b *TermBank) mk(op string, sort string, leaf, lit bool, val *big.Int, args ...*Term) *Term {
	var sb strings.Builder
	sb.WriteString(op)
	sb.WriteByte('|')
	sb.WriteString(sort)
	for _, a := range args {
		fmt.Fprintf(&sb, ",%d", a.id)
	}
	if lit && val != nil {
		sb.WriteString("#" + val.String())
	}
	key := sb.String()
	if t, ok := b.tab[key]; ok {
		return t
	}
	b.next++
	t := &Term{op: op, args: args, sort: sort, id: b.next, leaf: leaf, lit: lit, val: val, width: bvWidth(sort)}
	b.tab[key] = t
	return t
}

// Var returns the declared constant with that exact name.
func Var(name, sort string) *Term { return TB.mk(name, sort, true, false, nil) }

var boundVars = map[int]bool{}

// BoundVar returns a fresh variable to be bound by Quant.
func BoundVar(prefix, sort string) *Term {
	t := Fresh(prefix, sort)
	boundVars[t.id] = true
	return t
}

// Quant builds (forall|exists ((v sort)) body).
func Quant(kind string, v, body *Term) *Term {
	if body == True || body == False {
		return body
	}
	return App(kind, SBool, v, body)
}

var hasBoundMemo = map[int]bool{}

func hasBound(t *Term) bool {
	if r, ok := hasBoundMemo[t.id]; ok {
		return r
	}
	r := boundVars[t.id]
	for _, a := range t.args {
		if hasBound(a) {
			r = true
		}
	}
	hasBoundMemo[t.id] = r
	return r
}

// Fresh returns a new declared constant whose name starts with prefix.
func Fresh(prefix, sort string) *Term {
	prefix = sanitize(prefix)
	TB.fresh[prefix]++
	return Var(fmt.Sprintf("%s!%d", prefix, TB.fresh[prefix]), sort)
}

func sanitize(s string) string {
	var sb strings.Builder
	for _, r := range s {
		switch {
		case r >= 'a' && r <= 'z', r >= 'A' && r <= 'Z', r >= '0' && r <= '9', r == '_', r == '.', r == '!', r == '$':
			sb.WriteRune(r)
		default:
			sb.WriteByte('_')
		}
	}
	return sb.String()
}

func mask(w int) *big.Int {
	m := new(big.Int).Lsh(big.NewInt(1), uint(w))
	return m.Sub(m, big.NewInt(1))
}

func BVBig(v *big.Int, w int) *Term {
	x := new(big.Int).And(v, mask(w))
	if v.Sign() < 0 {
		x = new(big.Int).Mod(v, new(big.Int).Lsh(big.NewInt(1), uint(w)))
	}
	return TB.mk("bv", SBV(w), false, true, x)
}
func BV(v uint64, w int) *Term   { return BVBig(new(big.Int).SetUint64(v), w) }
func BVI(v int64, w int) *Term   { return BVBig(big.NewInt(v), w) }
func RefNil() *Term              { return BV(0, 32) }
func Bool(v bool) *Term {
	if v {
		return True
	}
	return False
}

var True = TB.mk("true", SBool, false, true, big.NewInt(1))
var False = TB.mk("false", SBool, false, true, big.NewInt(0))

func (t *Term) IsTrue() bool  { return t == True }
func (t *Term) IsFalse() bool { return t == False }
func (t *Term) IsLit() bool   { return t.lit }

// signed value of a bv literal
func (t *Term) sval() *big.Int {
	v := new(big.Int).Set(t.val)
	if t.width > 0 && v.Bit(t.width-1) == 1 {
		v.Sub(v, new(big.Int).Lsh(big.NewInt(1), uint(t.width)))
	}
	return v
}

func App(op, sort string, args ...*Term) *Term {
	return TB.mk(op, sort, false, false, nil, args...)
}

// ---------------------------------------------------------------- booleans

func Not(a *Term) *Term {
	if a == True {
		return False
	}
	if a == False {
		return True
	}
	if a.op == "not" {
		return a.args[0]
	}
	return App("not", SBool, a)
}

func And(xs ...*Term) *Term {
	var out []*Term
	seen := map[int]bool{}
	for _, x := range xs {
		if x == False {
			return False
		}
		if x == True || seen[x.id] {
			continue
		}
		if x.op == "and" {
			for _, y := range x.args {
				if !seen[y.id] {
					seen[y.id] = true
					out = append(out, y)
				}
			}
			continue
		}
		seen[x.id] = true
		out = append(out, x)
	}
	for _, x := range out {
		if x.op == "not" && seen[x.args[0].id] {
			return False
		}
	}
	switch len(out) {
	case 0:
		return True
	case 1:
		return out[0]
	}
	return App("and", SBool, out...)
}

func Or(xs ...*Term) *Term {
	var out []*Term
	seen := map[int]bool{}
	for _, x := range xs {
		if x == True {
			return True
		}
		if x == False || seen[x.id] {
			continue
		}
		if x.op == "or" {
			for _, y := range x.args {
				if !seen[y.id] {
					seen[y.id] = true
					out = append(out, y)
				}
			}
			continue
		}
		seen[x.id] = true
		out = append(out, x)
	}
	for _, x := range out {
		if x.op == "not" && seen[x.args[0].id] {
			return True
		}
	}
	switch len(out) {
	case 0:
		return False
	case 1:
		return out[0]
	}
	return App("or", SBool, out...)
}

func Implies(a, b *Term) *Term { return Or(Not(a), b) }

func Ite(c, a, b *Term) *Term {
	if c == True {
		return a
	}
	if c == False {
		return b
	}
	if a == b {
		return a
	}
	if a.sort != b.sort {
		panic(fmt.Sprintf("ite sort mismatch %s vs %s", a.sort, b.sort))
	}
	if a.sort == SBool {
		if a == True && b == False {
			return c
		}
		if a == False && b == True {
			return Not(c)
		}
		if a == True {
			return Or(c, b)
		}
		if b == False {
			return And(c, a)
		}
		if a == False {
			return And(Not(c), b)
		}
		if b == True {
			return Or(Not(c), a)
		}
	}
	return App("ite", a.sort, c, a, b)
}

// freshSyms: the symbols introduced for allocations. Each one is assumed, at
// its allocation point, to be non-nil and not allocated before, so two
// different ones never denote the same object on a path where both exist.
var freshSyms = map[int]bool{}

func MarkFresh(t *Term) { freshSyms[t.id] = true }

// knownDistinct: a and b are different by construction.
func knownDistinct(a, b *Term) bool {
	if a == b {
		return false
	}
	if a.lit && b.lit {
		return a.val.Cmp(b.val) != 0
	}
	fa, fb := freshSyms[a.id], freshSyms[b.id]
	if fa && fb {
		return true
	}
	if fa && b.lit && b.val.Sign() == 0 || fb && a.lit && a.val.Sign() == 0 {
		return true
	}
	return false
}

func Eq(a, b *Term) *Term {
	if a == b {
		return True
	}
	if a.sort != b.sort {
		panic(fmt.Sprintf("eq sort mismatch %s vs %s (%s, %s)", a.sort, b.sort, a, b))
	}
	if a.lit && b.lit {
		return Bool(a.val.Cmp(b.val) == 0)
	}
	if knownDistinct(a, b) {
		return False
	}
	if a.sort == SBool {
		if a == True {
			return b
		}
		if b == True {
			return a
		}
		if a == False {
			return Not(b)
		}
		if b == False {
			return Not(a)
		}
	}
	if a.id > b.id {
		a, b = b, a
	}
	return App("=", SBool, a, b)
}

func Neq(a, b *Term) *Term { return Not(Eq(a, b)) }

// ---------------------------------------------------------------- bit-vectors

func bvBin(op string, a, b *Term, f func(x, y *big.Int, w int) *big.Int) *Term {
	if a.sort != b.sort {
		panic(fmt.Sprintf("%s sort mismatch %s vs %s", op, a.sort, b.sort))
	}
	if a.lit && b.lit && f != nil {
		if r := f(a.val, b.val, a.width); r != nil {
			return BVBig(r, a.width)
		}
	}
	return App(op, a.sort, a, b)
}

func BVAdd(a, b *Term) *Term {
	if a.lit && a.val.Sign() == 0 {
		return b
	}
	if b.lit && b.val.Sign() == 0 {
		return a
	}
	return bvBin("bvadd", a, b, func(x, y *big.Int, w int) *big.Int { return new(big.Int).Add(x, y) })
}
func BVSub(a, b *Term) *Term {
	if b.lit && b.val.Sign() == 0 {
		return a
	}
	if a == b {
		return BV(0, a.width)
	}
	// (x + y) - y = x ; (x + y) - x = y
	if a.op == "bvadd" && len(a.args) == 2 {
		if a.args[1] == b {
			return a.args[0]
		}
		if a.args[0] == b {
			return a.args[1]
		}
	}
	return bvBin("bvsub", a, b, func(x, y *big.Int, w int) *big.Int {
		r := new(big.Int).Sub(x, y)
		return r.Mod(r, new(big.Int).Lsh(big.NewInt(1), uint(w)))
	})
}
func BVMul(a, b *Term) *Term {
	return bvBin("bvmul", a, b, func(x, y *big.Int, w int) *big.Int { return new(big.Int).Mul(x, y) })
}
func BVAndT(a, b *Term) *Term {
	return bvBin("bvand", a, b, func(x, y *big.Int, w int) *big.Int { return new(big.Int).And(x, y) })
}
func BVOrT(a, b *Term) *Term {
	return bvBin("bvor", a, b, func(x, y *big.Int, w int) *big.Int { return new(big.Int).Or(x, y) })
}
func BVXorT(a, b *Term) *Term {
	return bvBin("bvxor", a, b, func(x, y *big.Int, w int) *big.Int { return new(big.Int).Xor(x, y) })
}
func BVUDiv(a, b *Term) *Term {
	return bvBin("bvudiv", a, b, func(x, y *big.Int, w int) *big.Int {
		if y.Sign() == 0 {
			return nil
		}
		return new(big.Int).Div(x, y)
	})
}
func BVURem(a, b *Term) *Term {
	return bvBin("bvurem", a, b, func(x, y *big.Int, w int) *big.Int {
		if y.Sign() == 0 {
			return nil
		}
		return new(big.Int).Mod(x, y)
	})
}
func BVSDiv(a, b *Term) *Term {
	if a.lit && b.lit && b.val.Sign() != 0 {
		return BVBig(new(big.Int).Quo(a.sval(), b.sval()), a.width)
	}
	return App("bvsdiv", a.sort, a, b)
}
func BVSRem(a, b *Term) *Term {
	if a.lit && b.lit && b.val.Sign() != 0 {
		return BVBig(new(big.Int).Rem(a.sval(), b.sval()), a.width)
	}
	return App("bvsrem", a.sort, a, b)
}
func BVShl(a, b *Term) *Term {
	return bvBin("bvshl", a, b, func(x, y *big.Int, w int) *big.Int {
		if y.Cmp(big.NewInt(int64(w))) >= 0 {
			return big.NewInt(0)
		}
		return new(big.Int).Lsh(x, uint(y.Uint64()))
	})
}
func BVLshr(a, b *Term) *Term {
	return bvBin("bvlshr", a, b, func(x, y *big.Int, w int) *big.Int {
		if y.Cmp(big.NewInt(int64(w))) >= 0 {
			return big.NewInt(0)
		}
		return new(big.Int).Rsh(x, uint(y.Uint64()))
	})
}
func BVAshr(a, b *Term) *Term {
	if a.lit && b.lit {
		sh := uint(b.val.Uint64())
		if b.val.Cmp(big.NewInt(int64(a.width))) >= 0 {
			sh = uint(a.width)
		}
		return BVBig(new(big.Int).Rsh(a.sval(), sh), a.width)
	}
	return App("bvashr", a.sort, a, b)
}
func BVNeg(a *Term) *Term {
	if a.lit {
		return BVBig(new(big.Int).Neg(a.val), a.width)
	}
	return App("bvneg", a.sort, a)
}
func BVNotT(a *Term) *Term {
	if a.lit {
		return BVBig(new(big.Int).Xor(a.val, mask(a.width)), a.width)
	}
	return App("bvnot", a.sort, a)
}

func bvCmp(op string, a, b *Term, signed bool, f func(c int) bool) *Term {
	if a.sort != b.sort {
		panic(fmt.Sprintf("%s sort mismatch %s vs %s", op, a.sort, b.sort))
	}
	if a.lit && b.lit {
		if signed {
			return Bool(f(a.sval().Cmp(b.sval())))
		}
		return Bool(f(a.val.Cmp(b.val)))
	}
	if a == b {
		return Bool(f(0))
	}
	return App(op, SBool, a, b)
}
func BVUlt(a, b *Term) *Term {
	if b.lit && b.val.Sign() == 0 {
		return False
	}
	return bvCmp("bvult", a, b, false, func(c int) bool { return c < 0 })
}
func BVUle(a, b *Term) *Term {
	if a.lit && a.val.Sign() == 0 {
		return True
	}
	return bvCmp("bvule", a, b, false, func(c int) bool { return c <= 0 })
}
func BVSlt(a, b *Term) *Term { return bvCmp("bvslt", a, b, true, func(c int) bool { return c < 0 }) }
func BVSle(a, b *Term) *Term { return bvCmp("bvsle", a, b, true, func(c int) bool { return c <= 0 }) }

func ZeroExt(a *Term, to int) *Term {
	if to == a.width {
		return a
	}
	if to < a.width {
		return Extract(a, to-1, 0)
	}
	if a.lit {
		return BVBig(a.val, to)
	}
	return App(fmt.Sprintf("(_ zero_extend %d)", to-a.width), SBV(to), a)
}
func SignExt(a *Term, to int) *Term {
	if to == a.width {
		return a
	}
	if to < a.width {
		return Extract(a, to-1, 0)
	}
	if a.lit {
		return BVBig(a.sval(), to)
	}
	return App(fmt.Sprintf("(_ sign_extend %d)", to-a.width), SBV(to), a)
}
func Extract(a *Term, hi, lo int) *Term {
	if lo == 0 && hi == a.width-1 {
		return a
	}
	if a.lit {
		v := new(big.Int).Rsh(a.val, uint(lo))
		return BVBig(v, hi-lo+1)
	}
	// extract of zero/sign extension that stays inside the original
	if (strings.HasPrefix(a.op, "(_ zero_extend") || strings.HasPrefix(a.op, "(_ sign_extend")) && hi < a.args[0].width {
		return Extract(a.args[0], hi, lo)
	}
	if a.op == "concat" {
		lw := a.args[1].width
		if hi < lw {
			return Extract(a.args[1], hi, lo)
		}
		if lo >= lw {
			return Extract(a.args[0], hi-lw, lo-lw)
		}
	}
	return App(fmt.Sprintf("(_ extract %d %d)", hi, lo), SBV(hi-lo+1), a)
}
func Concat(hi, lo *Term) *Term {
	if hi.lit && lo.lit {
		v := new(big.Int).Lsh(hi.val, uint(lo.width))
		v.Or(v, lo.val)
		return BVBig(v, hi.width+lo.width)
	}
	return App("concat", SBV(hi.width+lo.width), hi, lo)
}

// ---------------------------------------------------------------- arrays

func elemSort(arr string) string {
	// "(Array I E)" -> E ; I is always balanced
	s := strings.TrimPrefix(arr, "(Array ")
	s = strings.TrimSuffix(s, ")")
	depth := 0
	for i, c := range s {
		switch c {
		case '(':
			depth++
		case ')':
			depth--
		case ' ':
			if depth == 0 {
				return s[i+1:]
			}
		}
	}
	panic("bad array sort " + arr)
}
func idxSort(arr string) string {
	s := strings.TrimPrefix(arr, "(Array ")
	depth := 0
	for i, c := range s {
		switch c {
		case '(':
			depth++
		case ')':
			depth--
		case ' ':
			if depth == 0 {
				return s[:i]
			}
		}
	}
	if !strings.HasPrefix(arr, "(Array ") {
		return "" // not an array sort: no index sort
	}
	panic("bad array sort " + arr)
}

func Select(a, i *Term) *Term {
	if i.sort != idxSort(a.sort) {
		panic(fmt.Sprintf("select index sort %s on %s", i.sort, a.sort))
	}
	// read-over-write on literal / syntactically equal indices
	cur := a
	for {
		if cur.op == "store" {
			j := cur.args[1]
			if j == i {
				return cur.args[2]
			}
			if knownDistinct(i, j) {
				cur = cur.args[0]
				continue
			}
		} else if cur.op == "constarr" {
			return cur.args[0]
		}
		break
	}
	return App("select", elemSort(a.sort), cur, i)
}
func Store(a, i, v *Term) *Term {
	if i.sort != idxSort(a.sort) || v.sort != elemSort(a.sort) {
		panic(fmt.Sprintf("store sorts %s[%s]:=%s", a.sort, i.sort, v.sort))
	}
	if a.op == "store" && a.args[1] == i {
		return Store(a.args[0], i, v)
	}
	return App("store", a.sort, a, i, v)
}
func ConstArr(sort string, v *Term) *Term { return App("constarr", sort, v) }

// ---------------------------------------------------------------- printing

func (t *Term) String() string {
	var sb strings.Builder
	t.write(&sb, nil)
	return sb.String()
}

func (t *Term) head() string {
	switch {
	case t.lit && t.sort == SBool:
		return t.op
	case t.lit:
		if t.width%4 == 0 {
			return fmt.Sprintf("#x%0*s", t.width/4, t.val.Text(16))
		}
		return fmt.Sprintf("#b%0*s", t.width, t.val.Text(2))
	case t.leaf:
		return "|" + strings.ReplaceAll(t.op, "|", ":") + "|"
	}
	return ""
}

func (t *Term) write(sb *strings.Builder, named map[int]string) {
	if h := t.head(); h != "" {
		sb.WriteString(h)
		return
	}
	if named != nil {
		if n, ok := named[t.id]; ok {
			sb.WriteString(n)
			return
		}
	}
	t.writeBody(sb, named)
}

func (t *Term) writeBody(sb *strings.Builder, named map[int]string) {
	if t.op == "constarr" {
		sb.WriteString("((as const " + t.sort + ") ")
		t.args[0].write(sb, named)
		sb.WriteString(")")
		return
	}
	if t.op == "copyarr" {
		// (lambda i. ite(doff <= i < doff+n, src[soff + i - doff], dst[i]))
		v := fmt.Sprintf("i!%d", t.id)
		sb.WriteString("(lambda ((" + v + " (_ BitVec 64))) (ite (and (bvule ")
		t.args[1].write(sb, named)
		sb.WriteString(" " + v + ") (bvult (bvsub " + v + " ")
		t.args[1].write(sb, named)
		sb.WriteString(") ")
		t.args[4].write(sb, named)
		sb.WriteString(")) (select ")
		t.args[2].write(sb, named)
		sb.WriteString(" (bvadd ")
		t.args[3].write(sb, named)
		sb.WriteString(" (bvsub " + v + " ")
		t.args[1].write(sb, named)
		sb.WriteString("))) (select ")
		t.args[0].write(sb, named)
		sb.WriteString(" " + v + ")))")
		return
	}
	if t.op == "forall" || t.op == "exists" {
		sb.WriteString("(" + t.op + " ((" + t.args[0].head() + " " + t.args[0].sort + ")) ")
		t.args[1].write(sb, named)
		sb.WriteString(")")
		return
	}
	if len(t.args) == 0 {
		sb.WriteString(t.op)
		return
	}
	sb.WriteByte('(')
	sb.WriteString(t.op)
	for _, a := range t.args {
		sb.WriteByte(' ')
		a.write(sb, named)
	}
	sb.WriteByte(')')
}

// Script renders declarations + definitions for all nodes reachable from
// roots, then one (assert ...) per root.
func Script(roots []*Term, extraDecls []string) string {
	return scriptImpl(roots, extraDecls, nil, nil)
}

// ScriptDefs additionally defines each probe term under the given name.
func ScriptDefs(roots []*Term, probes []*Term, names []string) string {
	return scriptImpl(roots, nil, probes, names)
}

func scriptImpl(roots []*Term, extraDecls []string, probes []*Term, pnames []string) string {
	var sb strings.Builder
	refs := map[int]int{}
	var order []*Term
	seen := map[int]bool{}
	var visit func(t *Term)
	visit = func(t *Term) {
		refs[t.id]++
		if seen[t.id] {
			return
		}
		seen[t.id] = true
		for _, a := range t.args {
			visit(a)
		}
		order = append(order, t)
	}
	for _, r := range roots {
		visit(r)
	}
	for _, r := range probes {
		visit(r)
		refs[r.id]++ // force a name
	}
	// declarations
	var leaves []*Term
	usedFuns := map[string]bool{}
	for _, t := range order {
		if t.leaf {
			leaves = append(leaves, t)
		}
		if _, ok := TB.funs[t.op]; ok {
			usedFuns[t.op] = true
		}
	}
	sort.Slice(leaves, func(i, j int) bool { return leaves[i].id < leaves[j].id })
	for _, d := range extraDecls {
		sb.WriteString(d)
		sb.WriteByte('\n')
	}
	for _, name := range TB.order {
		if usedFuns[name] {
			sb.WriteString(TB.funs[name])
			sb.WriteByte('\n')
		}
	}
	for _, l := range leaves {
		if boundVars[l.id] {
			continue
		}
		fmt.Fprintf(&sb, "(declare-const %s %s)\n", l.head(), l.sort)
	}
	named := map[int]string{}
	for _, t := range order {
		if t.leaf || t.lit {
			continue
		}
		if refs[t.id] > 1 && !hasBound(t) {
			name := fmt.Sprintf("?t%d", t.id)
			fmt.Fprintf(&sb, "(define-fun %s () %s ", name, t.sort)
			t.writeBody(&sb, named)
			sb.WriteString(")\n")
			named[t.id] = name
		}
	}
	for _, r := range roots {
		sb.WriteString("(assert ")
		r.write(&sb, named)
		sb.WriteString(")\n")
	}
	for i, p := range probes {
		fmt.Fprintf(&sb, "(define-fun %s () %s ", pnames[i], p.sort)
		p.write(&sb, named)
		sb.WriteString(")\n")
	}
	return sb.String()
}

// DeclareFun registers an uninterpreted function usable through App(name,...).
func DeclareFun(name string, argSorts []string, res string) {
	if _, ok := TB.funs[name]; ok {
		return
	}
	TB.funs[name] = fmt.Sprintf("(declare-fun %s (%s) %s)", name, strings.Join(argSorts, " "), res)
	TB.order = append(TB.order, name)
}

// size of the dag under t (for VC size caps)
func DagSize(roots ...*Term) int {
	seen := map[int]bool{}
	var visit func(t *Term)
	visit = func(t *Term) {
		if seen[t.id] {
			return
		}
		seen[t.id] = true
		for _, a := range t.args {
			visit(a)
		}
	}
	for _, r := range roots {
		visit(r)
	}
	return len(seen)
}

// Replace substitutes every occurrence of from by to in t.
func Replace(t, from, to *Term, memo map[int]*Term) *Term {
	if t == from {
		return to
	}
	if r, ok := memo[t.id]; ok {
		return r
	}
	if len(t.args) == 0 {
		memo[t.id] = t
		return t
	}
	changed := false
	args := make([]*Term, len(t.args))
	for i, a := range t.args {
		args[i] = Replace(a, from, to, memo)
		if args[i] != a {
			changed = true
		}
	}
	r := t
	if changed {
		r = rebuildTerm(t, args)
	}
	memo[t.id] = r
	return r
}

// rebuildTerm re-applies the smart constructors where folding matters.
func rebuildTerm(t *Term, args []*Term) *Term {
	switch t.op {
	case "and":
		return And(args...)
	case "or":
		return Or(args...)
	case "not":
		return Not(args[0])
	case "ite":
		return Ite(args[0], args[1], args[2])
	case "=":
		return Eq(args[0], args[1])
	case "select":
		return SelectA(args[0], args[1])
	case "bvadd":
		return BVAdd(args[0], args[1])
	case "bvsub":
		return BVSub(args[0], args[1])
	case "bvsle":
		return BVSle(args[0], args[1])
	case "bvslt":
		return BVSlt(args[0], args[1])
	case "bvule":
		return BVUle(args[0], args[1])
	case "bvult":
		return BVUlt(args[0], args[1])
	}
	return TB.mk(t.op, t.sort, false, false, nil, args...)
}

// instantiable quantifier nodes (asserted-positive occurrences)
var instQuant = map[int]bool{}
