package main

// Forward symbolic execution of go/ssa (NaiveForm) with state merging at join
// points. Loops are cut by invariants (havoc of the loop targets) or, when no
// invariant is given, unrolled while their condition folds to a constant, with
// an unwinding assertion.

import (
	"fmt"
	"go/token"
	"go/types"
	"os"
	"sort"
	"strings"

	"golang.org/x/tools/go/ssa"
)

type Obligation struct {
	Name       string // stable name: <function>/<kind>:<detail>#<n>
	Func       string
	Kind       string // requires | ensures | invariant-entry | invariant-preserved | index | slice | nil | div | assert-type | close | send | unwind | frame | lock | ...
	Detail     string
	Pos        token.Position
	PC         *Term
	Goal       *Term
	NAssume    int // number of assumptions in force
	Clause     string
	Probes     []Probe
	Props      []string // properties this obligation serves
	Lambda     bool
	NAssumePre int // covers: assumptions in force before the step (-1: none)
	PreRes     SolveResult

	// result
	Res   SolveResult
	Cross string // thorough tier: the second solver that independently answered unsat
}

type Probe struct {
	Name string
	T    *Term
}

type Exec struct {
	prog         *ssa.Program
	fset         *token.FileSet
	assumes      []*Term
	obls         []*Obligation
	dry          int
	sweep        int
	sweepFn      *ssa.Function
	missingDone  map[*ssa.Function]bool
	rootReader   *IfaceV // the io.Reader / io.ReadWriter parameter of the verified function, if any
	alloc0       *Term   // the allocation set on entry of the verified function
	notes        map[string]int
	root         *ssa.Function
	rootName     string
	cellN        int
	globals      map[*ssa.Global]*Cell
	typeIDs      map[string]int
	typeByID     map[int]types.Type
	depth        int
	maxInline    int
	oblCount     map[string]int
	ctx          *VerifCtx // contracts etc.
	frameN       int
	probes       []Probe
	unrollMax    int
	curProps     []string
	strIDs       map[string]int
	stack        []*ssa.Function
	atomicAccess bool
	quantUsed    []quantUse
	clauseProps  []string
	inSpec       int
	pendingPtrs  []*Term
	oblSeen      map[string]bool
	inInit       bool
	noAlloc      int
	covers       []*Obligation
}

func NewExec(ctx *VerifCtx) *Exec {
	return &Exec{
		prog: ctx.prog, fset: ctx.fset, notes: map[string]int{}, globals: map[*ssa.Global]*Cell{},
		typeIDs: map[string]int{}, typeByID: map[int]types.Type{}, maxInline: 6, oblCount: map[string]int{}, ctx: ctx,
		unrollMax: 300, strIDs: map[string]int{},
	}
}

func (ex *Exec) note(format string, a ...any) {
	ex.notes[fmt.Sprintf(format, a...)]++
}

func (ex *Exec) assume(pc, fact *Term) {
	if fact == True {
		return
	}
	ex.assumes = append(ex.assumes, Implies(pc, fact))
}

func (ex *Exec) oblige(kind, detail string, pos token.Pos, pc, goal *Term, clause string) {
	if ex.dry > 0 {
		return
	}
	if ex.sweep > 0 && kind != "select-quit" {
		// goroutine-body sweep: only the shutdown discipline is checked there
		return
	}
	if pc == False || goal == True {
		// trivially discharged by folding: still counted, as such
		ex.ctx.folded++
		return
	}
	// identical obligations (same goal under the same path condition) are generated
	// once: unrolled loops repeat the same checks
	dk := fmt.Sprintf("%s/%d/%d/%d", kind, pc.id, goal.id, len(ex.assumes))
	if ex.oblSeen == nil {
		ex.oblSeen = map[string]bool{}
	}
	if ex.oblSeen[dk] {
		return
	}
	ex.oblSeen[dk] = true
	base := fmt.Sprintf("%s/%s:%s", ex.rootName, kind, detail)
	ex.oblCount[base]++
	name := base
	if n := ex.oblCount[base]; n > 1 {
		name = fmt.Sprintf("%s#%d", base, n)
	}
	o := &Obligation{Name: name, Func: ex.rootName, Kind: kind, Detail: detail, PC: pc, Goal: goal,
		NAssume: len(ex.assumes), Clause: clause, Probes: append([]Probe(nil), ex.probes...), Props: ex.propsFor(kind)}
	if pos.IsValid() {
		o.Pos = ex.fset.Position(pos)
	}
	ex.obls = append(ex.obls, o)
}

// propsFor: which properties an obligation of this kind serves.
func (ex *Exec) propsFor(kind string) []string {
	if ex.clauseProps != nil {
		return ex.clauseProps
	}
	pick := func(cands ...string) []string {
		var out []string
		for _, c := range cands {
			if contains(ex.curProps, c) {
				out = append(out, c)
			}
		}
		return out
	}
	switch kind {
	case "index", "slice", "nil", "div", "assert-type", "makeslice", "panic", "shift":
		if p := pick("C07"); len(p) > 0 {
			return p
		}
	case "lock":
		if p := pick("C18"); len(p) > 0 {
			return p
		}
	case "close", "send":
		if p := pick("C18", "C12"); len(p) > 0 {
			return p
		}
	}
	return ex.curProps
}

// cover records a reachability check: the assumptions in force together with
// pc must be satisfiable (a contradictory contract would make everything after
// this point vacuously true).
func (ex *Exec) cover(what string, pos token.Pos, pc *Term) {
	ex.coverFrom(what, pos, pc, -1)
}

// coverFrom: nPre is the number of assumptions in force before the step whose
// contract is being checked for contradiction; the step is only blamed if the
// point before it was reachable.
func (ex *Exec) coverFrom(what string, pos token.Pos, pc *Term, nPre int) {
	if ex.dry > 0 || pc == False {
		return
	}
	o := &Obligation{Name: fmt.Sprintf("%s/cover:%s#%d", ex.rootName, what, len(ex.covers)+1), Func: ex.rootName, Kind: "cover",
		PC: pc, Goal: False, NAssume: len(ex.assumes), Clause: "reachable: " + what, NAssumePre: nPre}
	if pos.IsValid() {
		o.Pos = ex.fset.Position(pos)
	}
	ex.covers = append(ex.covers, o)
}

func (ex *Exec) newCell(name string, t types.Type) *Cell {
	ex.cellN++
	return &Cell{id: ex.cellN, name: name, typ: t}
}

func (ex *Exec) typeID(t types.Type) *Term {
	k := typeKey(t)
	id, ok := ex.typeIDs[k]
	if !ok {
		id = len(ex.typeIDs) + 1
		ex.typeIDs[k] = id
		ex.typeByID[id] = t
	}
	return BV(uint64(id), 16)
}

// ---------------------------------------------------------------- frames

type deferEntry struct {
	call  *ssa.CallCommon
	fnv   Value
	args  []Value
	guard *Term
	pos   token.Pos
}

type retEntry struct {
	pc  *Term
	st  *State
	val Value
}

type Frame struct {
	ex         *Exec
	fn         *ssa.Function
	id         int
	regs       map[ssa.Value]Value
	defers     []deferEntry
	rets       []retEntry
	cells      map[*ssa.Alloc]*Cell
	loops      map[*ssa.BasicBlock]*loopInfo
	rpo        []*ssa.BasicBlock
	rpoIdx     map[*ssa.BasicBlock]int
	inc        map[*ssa.BasicBlock][]edge
	isRoot     bool
	st         *State // state at the current instruction (for plain channel operations)
	ifConcrete map[*ssa.BasicBlock]bool
	// ghost: names of parameters/results for spec evaluation
	paramVals  []Value
	entry      *State
	bind       []Value
	edgeCond   map[[2]*ssa.BasicBlock]*Term
	allocObjs  map[*ssa.Alloc]types.Object
	pointBlock map[int]*ssa.BasicBlock
	curSite    *ssa.Call
}

type edge struct {
	from *ssa.BasicBlock
	cond *Term
	st   *State
}

type loopInfo struct {
	head    *ssa.BasicBlock
	blocks  map[*ssa.BasicBlock]bool
	ordinal int    // among for/range loops in source order, -1 for label loops
	label   string // for goto-label loops
	parent  *loopInfo
}

func (ex *Exec) newFrame(fn *ssa.Function) *Frame {
	ex.frameN++
	fr := &Frame{ex: ex, fn: fn, id: ex.frameN, regs: map[ssa.Value]Value{}, cells: map[*ssa.Alloc]*Cell{},
		inc: map[*ssa.BasicBlock][]edge{}, ifConcrete: map[*ssa.BasicBlock]bool{}, edgeCond: map[[2]*ssa.BasicBlock]*Term{}}
	fr.analyse()
	return fr
}

type fnAnalysis struct {
	loops  map[*ssa.BasicBlock]*loopInfo
	rpo    []*ssa.BasicBlock
	rpoIdx map[*ssa.BasicBlock]int
}

var analysisCache = map[*ssa.Function]*fnAnalysis{}

func (fr *Frame) analyse() {
	if a, ok := analysisCache[fr.fn]; ok {
		fr.loops, fr.rpo, fr.rpoIdx = a.loops, a.rpo, a.rpoIdx
		return
	}
	fn := fr.fn
	loops := map[*ssa.BasicBlock]*loopInfo{}
	if len(fn.Blocks) == 0 {
		return
	}
	// reachable blocks from entry
	reach := map[*ssa.BasicBlock]bool{}
	var dfs func(b *ssa.BasicBlock)
	dfs = func(b *ssa.BasicBlock) {
		if reach[b] {
			return
		}
		reach[b] = true
		for _, s := range b.Succs {
			dfs(s)
		}
	}
	dfs(fn.Blocks[0])
	isBack := func(from, to *ssa.BasicBlock) bool { return to.Dominates(from) }
	for _, b := range fn.Blocks {
		if !reach[b] {
			continue
		}
		for _, s := range b.Succs {
			if isBack(b, s) {
				li := loops[s]
				if li == nil {
					li = &loopInfo{head: s, blocks: map[*ssa.BasicBlock]bool{s: true}, ordinal: -1}
					loops[s] = li
				}
				// natural loop: all blocks that reach b without passing s
				var up func(x *ssa.BasicBlock)
				up = func(x *ssa.BasicBlock) {
					if li.blocks[x] {
						return
					}
					li.blocks[x] = true
					for _, p := range x.Preds {
						if reach[p] {
							up(p)
						}
					}
				}
				up(b)
			}
		}
	}
	// ordinals: for/range loop heads by block index
	var heads []*ssa.BasicBlock
	for h := range loops {
		heads = append(heads, h)
	}
	sort.Slice(heads, func(i, j int) bool { return heads[i].Index < heads[j].Index })
	ord := 0
	for _, h := range heads {
		c := h.Comment
		if strings.HasPrefix(c, "for.") || strings.HasPrefix(c, "range") {
			loops[h].ordinal = ord
			ord++
		} else {
			loops[h].label = c
		}
	}
	// parent = smallest enclosing loop
	for _, h := range heads {
		var best *loopInfo
		for _, g := range heads {
			if g == h {
				continue
			}
			if loops[g].blocks[h] && (best == nil || len(loops[g].blocks) < len(best.blocks)) {
				best = loops[g]
			}
		}
		loops[h].parent = best
	}
	// reverse post-order ignoring back edges
	var post []*ssa.BasicBlock
	seen := map[*ssa.BasicBlock]bool{}
	var po func(b *ssa.BasicBlock)
	po = func(b *ssa.BasicBlock) {
		seen[b] = true
		for i := len(b.Succs) - 1; i >= 0; i-- {
			s := b.Succs[i]
			if !seen[s] && !isBack(b, s) {
				po(s)
			}
		}
		post = append(post, b)
	}
	po(fn.Blocks[0])
	rpo := make([]*ssa.BasicBlock, len(post))
	idx := map[*ssa.BasicBlock]int{}
	for i := range post {
		rpo[i] = post[len(post)-1-i]
		idx[rpo[i]] = i
	}
	a := &fnAnalysis{loops: loops, rpo: rpo, rpoIdx: idx}
	analysisCache[fn] = a
	fr.loops, fr.rpo, fr.rpoIdx = a.loops, a.rpo, a.rpoIdx
}

// mergeEdges combines incoming edges into (pc, state).
func mergeEdges(es []edge) (*Term, *State) {
	var conds []*Term
	var sts []*State
	for _, e := range es {
		if e.cond == False {
			continue
		}
		conds = append(conds, e.cond)
		sts = append(sts, e.st)
	}
	if len(conds) == 0 {
		return False, nil
	}
	return Or(conds...), MergeStates(conds, sts)
}

// runRegion executes the blocks of one region (the whole function when li is
// nil, else the body of loop li) starting at start with the given entry edges.
// It returns the edges leaving the region and the back edges to li.head.
func (fr *Frame) runRegion(li *loopInfo, start *ssa.BasicBlock, entry []edge) (exits map[*ssa.BasicBlock][]edge, backs []edge) {
	exits = map[*ssa.BasicBlock][]edge{}
	inRegion := func(b *ssa.BasicBlock) bool { return li == nil || li.blocks[b] }
	inc := map[*ssa.BasicBlock][]edge{}
	inc[start] = entry
	done := map[*ssa.BasicBlock]bool{}
	addEdge := func(from, to *ssa.BasicBlock, cond *Term, st *State) {
		if cond == False {
			return
		}
		e := edge{from, cond, st}
		if from != nil {
			fr.edgeCond[[2]*ssa.BasicBlock{from, to}] = cond
		}
		switch {
		case li != nil && to == li.head:
			backs = append(backs, e)
		case !inRegion(to):
			exits[to] = append(exits[to], e)
		default:
			inc[to] = append(inc[to], e)
		}
	}
	for _, b := range fr.rpo {
		if !inRegion(b) || done[b] {
			continue
		}
		if fr.rpoIdx[b] < fr.rpoIdx[start] {
			continue
		}
		if inner, ok := fr.loops[b]; ok && inner != li {
			// a nested loop: executed as a unit
			ex2 := fr.runLoop(inner, inc[b])
			for blk := range inner.blocks {
				done[blk] = true
			}
			for to, es := range ex2 {
				for _, e := range es {
					addEdge(e.from, to, e.cond, e.st)
				}
			}
			continue
		}
		done[b] = true
		pc, st := mergeEdges(inc[b])
		if pc == False {
			continue
		}
		fr.execBlock(b, pc, st, addEdge)
	}
	return exits, backs
}

// runLoop executes loop li entered through the given edges and returns the
// edges that leave it.
func (fr *Frame) runLoop(li *loopInfo, entry []edge) map[*ssa.BasicBlock][]edge {
	ex := fr.ex
	pc0, st0 := mergeEdges(entry)
	out := map[*ssa.BasicBlock][]edge{}
	if pc0 == False {
		return out
	}
	var invs []*LoopSpec
	if fr.isRoot {
		invs = ex.ctx.loopSpecs(fr.fn, li)
	}
	if len(invs) == 0 {
		// unrolling
		pc, st := pc0, st0
		for iter := 0; ; iter++ {
			if iter >= ex.unrollMax {
				ex.oblige("unwind", loopName(li), li.head.Instrs[0].Pos(), pc, False,
					fmt.Sprintf("loop %s needs more than %d iterations or an invariant", loopName(li), ex.unrollMax))
				break
			}
			exits, backs := fr.runRegion(li, li.head, []edge{{nil, pc, st}})
			for to, es := range exits {
				out[to] = append(out[to], es...)
			}
			pc, st = mergeEdges(backs)
			if pc == False {
				break
			}
			if !fr.ifConcrete[li.head] {
				// a symbolic loop without invariant: cut it with a failing unwinding assertion
				ex.oblige("unwind", loopName(li), li.head.Instrs[0].Pos(), pc, False,
					fmt.Sprintf("loop %s in %s has a symbolic bound and no invariant", loopName(li), fr.fn.Name()))
				break
			}
		}
		return out
	}
	// invariant mode
	env := fr.specEnv(st0, fr.entry)
	for _, inv := range invs {
		if inv.Kind != "invariant" {
			continue
		}
		ex.clauseProps = inv.Props
		g := ex.proveSpec(inv.Expr, inv.Info, env, pc0)
		ex.oblige("invariant-entry", fmt.Sprintf("%s.%d", loopName(li), inv.Index), inv.Pos, pc0, g, inv.Text)
	}
	ex.clauseProps = nil
	// loop targets by dry runs to a fixed point
	targetsC := map[int]bool{}
	targetsH := map[string]bool{}
	for round := 0; round < 6; round++ {
		st1 := havocTargets(st0, targetsC, targetsH)
		ex.dry++
		na := len(ex.assumes)
		_, backs := fr.runRegion(li, li.head, []edge{{nil, pc0, st1}})
		ex.assumes = ex.assumes[:na]
		ex.dry--
		_, stb := mergeEdges(backs)
		changed := false
		if stb != nil {
			for id, v := range st1.cells {
				nv, ok := stb.cells[id]
				if ok && !sameValue(v, nv) && !targetsC[id] {
					targetsC[id] = true
					changed = true
				}
			}
			for name, t := range stb.heap {
				if st1.get(name, t.sort) != t && !targetsH[name] {
					targetsH[name] = true
					changed = true
				}
			}
		}
		if !changed {
			break
		}
	}
	st1 := havocTargets(st0, targetsC, targetsH)
	ex.loopFrameAxioms(fr, li, pc0, st0, st1, targetsC, targetsH)
	env1 := fr.specEnv(st1, fr.entry)
	var variant0 *Term
	for _, inv := range invs {
		switch inv.Kind {
		case "invariant":
			g := ex.assumeSpec(inv.Expr, inv.Info, env1, pc0)
			ex.assume(pc0, g)
		case "decreases":
			v := ex.evalSpec(inv.Expr, inv.Info, env1, pc0)
			variant0 = v.(IntV).T
		}
	}
	ex.cover("loop head "+loopName(li), li.head.Instrs[0].Pos(), pc0)
	exits, backs := fr.runRegion(li, li.head, []edge{{nil, pc0, st1}})
	for to, es := range exits {
		out[to] = append(out[to], es...)
		// exitstep clauses: relation between the start of the last iteration and the exit
		for _, inv := range invs {
			if inv.Kind != "exitstep" || !strings.HasSuffix(to.Comment, ".done") {
				continue
			}
			pce, ste := mergeEdges(es)
			if pce == False {
				continue
			}
			envs := fr.specEnv(ste, st1)
			ex.clauseProps = inv.Props
			g := ex.proveSpec(inv.Expr, inv.Info, envs, pce)
			ex.oblige("loop-exitstep", fmt.Sprintf("%s.%d", loopName(li), inv.Index), inv.Pos, pce, g, inv.Text)
			ex.clauseProps = nil
		}
	}
	pcb, stb := mergeEdges(backs)
	if pcb != False {
		envb := fr.specEnv(stb, fr.entry)
		for _, inv := range invs {
			switch inv.Kind {
			case "invariant":
				ex.clauseProps = inv.Props
				for _, g := range ex.proveSplit(inv.Expr, inv.Info, envb, pcb) {
					ex.oblige("invariant-preserved", fmt.Sprintf("%s.%d", loopName(li), inv.Index), inv.Pos, pcb, g, inv.Text)
				}
				ex.clauseProps = nil
			case "step":
				envs := fr.specEnv(stb, st1)
				ex.clauseProps = inv.Props
				for _, g := range ex.proveSplit(inv.Expr, inv.Info, envs, pcb) {
					ex.oblige("loop-step", fmt.Sprintf("%s.%d", loopName(li), inv.Index), inv.Pos, pcb, g, inv.Text)
				}
				ex.clauseProps = nil
			case "decreases":
				v := ex.evalSpec(inv.Expr, inv.Info, envb, pcb).(IntV).T
				g := And(BVSle(BV(0, v.width), variant0), BVSlt(v, variant0))
				ex.oblige("decreases", loopName(li), inv.Pos, pcb, g, inv.Text)
			}
		}
	}
	return out
}

func loopName(li *loopInfo) string {
	if li.ordinal >= 0 {
		return fmt.Sprintf("loop%d", li.ordinal)
	}
	return "label:" + li.label
}

func sameValue(a, b Value) bool {
	if a == nil || b == nil {
		return a == nil && b == nil
	}
	if a.shape() != b.shape() {
		return false
	}
	ca, cb := a.comps(), b.comps()
	for i := range ca {
		if ca[i] != cb[i] {
			return false
		}
	}
	return true
}

func havocTargets(st *State, cs map[int]bool, hs map[string]bool) *State {
	n := st.clone()
	var ids []int
	for id := range cs {
		ids = append(ids, id)
	}
	sort.Ints(ids)
	for _, id := range ids {
		v, ok := n.cells[id]
		if !ok {
			continue
		}
		n.cells[id] = havocValue(v, fmt.Sprintf("loop.c%d", id))
	}
	var names []string
	for name := range hs {
		names = append(names, name)
	}
	sort.Strings(names)
	for _, name := range names {
		n.set(name, Fresh("loop."+name, heapSorts[name]))
	}
	return n
}

func havocValue(v Value, hint string) Value {
	cs := v.comps()
	out := make([]*Term, len(cs))
	for i, c := range cs {
		out[i] = Fresh(hint, c.sort)
	}
	return v.rebuild(out)
}

// ---------------------------------------------------------------- function execution

type callResult struct {
	val Value
	st  *State
	pc  *Term // condition under which the call returns normally
}

// execFunction runs fn with the given arguments from state st under pc.
func (ex *Exec) execFunction(fn *ssa.Function, args []Value, bind []Value, st *State, pc *Term, isRoot bool) callResult {
	fr := ex.newFrame(fn)
	fr.isRoot = isRoot
	fr.bind = bind
	fr.entry = st
	if len(fn.Blocks) == 0 {
		panic("execFunction: no body for " + fn.String())
	}
	for i, p := range fn.Params {
		fr.regs[p] = args[i]
	}
	for i, fv := range fn.FreeVars {
		fr.regs[fv] = bind[i]
	}
	fr.paramVals = args
	exits, _ := fr.runRegion(nil, fn.Blocks[0], []edge{{nil, pc, st.clone()}})
	_ = exits
	if len(fr.rets) == 0 {
		return callResult{pc: False, st: st}
	}
	var conds []*Term
	var sts []*State
	for _, r := range fr.rets {
		conds = append(conds, r.pc)
		sts = append(sts, r.st)
	}
	out := MergeStates(conds, sts)
	var val Value
	for i := len(fr.rets) - 1; i >= 0; i-- {
		if val == nil {
			val = fr.rets[i].val
		} else if fr.rets[i].val != nil {
			val = mergeSafe(fr.rets[i].pc, fr.rets[i].val, val)
		}
	}
	return callResult{val: val, st: out, pc: Or(conds...)}
}

func (fr *Frame) execBlock(b *ssa.BasicBlock, pc *Term, st *State, addEdge func(from, to *ssa.BasicBlock, cond *Term, st *State)) {
	ex := fr.ex
	var points []*PointSpec
	if fr.isRoot {
		points = ex.ctx.pointSpecs(ex.ctx.contractFor(fr.fn))
	} else if fr.fn.Parent() == ex.root && ex.root != nil {
		// a function literal of the verified function: its lines belong to it
		points = ex.ctx.pointSpecs(ex.ctx.contractFor(ex.root))
	} else if ic := ex.ctx.contractFor(fr.fn); ic != nil && ic.Inline {
		// an `inline` contract carries only point assertions: they are checked
		// wherever the function is inlined
		points = ex.ctx.pointSpecs(ic)
	}
	if b.Index == 0 && !ex.missingDone[fr.fn] {
		if ex.missingDone == nil {
			ex.missingDone = map[*ssa.Function]bool{}
		}
		ex.missingDone[fr.fn] = true
		for _, ps := range points {
			if ps.Missing != "" {
				ex.clauseProps = ps.Props
				ex.oblige("assert", fmt.Sprintf("at.%d", ps.Index), fr.fn.Pos(), pc, False, "at \""+ps.Pattern+"\" assert "+ps.Text+" -- "+ps.Missing)
				ex.clauseProps = nil
			}
		}
	}
	firedHere := map[int]bool{}
	for _, ins := range b.Instrs {
		if len(points) > 0 {
			if p := ins.Pos(); p.IsValid() {
				if _, isDbg := ins.(*ssa.DebugRef); !isDbg {
					pos := ex.fset.Position(p)
					for _, ps := range points {
						if pos.Line == ps.SrcLine && pos.Filename == ps.SrcFile && !firedHere[ps.Index] && fr.pointFirst(ps, b) {
							firedHere[ps.Index] = true
							env := fr.specEnv(st, fr.entry)
							if ps.Assume {
								g := ex.assumeSpec(ps.Expr, ps.Info, env, pc)
								ex.assume(pc, g)
								ex.note("ASSUMED at %q: %s", ps.Pattern, ps.Text)
								ex.cover("after assumption at "+ps.Pattern, p, pc)
								continue
							}
							ex.clauseProps = ps.Props
							g := ex.proveSpec(ps.Expr, ps.Info, env, pc)
							ex.oblige("assert", fmt.Sprintf("at.%d", ps.Index), p, pc, g, "at \""+ps.Pattern+"\" assert "+ps.Text)
							ex.clauseProps = nil
							// an asserted fact may be used from here on (it is proved separately)
							ex.assume(pc, ex.assumeSpec(ps.Expr, ps.Info, env, pc))
						}
					}
				}
			}
		}
		switch x := ins.(type) {
		case *ssa.If:
			c := fr.val(x.Cond).(BoolV).T
			fr.ifConcrete[b] = c.IsLit()
			if os_debug && !c.IsLit() && fr.fn.Name() == os.Getenv("LNCVC_DEBUG_IF") {
				fmt.Printf("IF %s block %d: %.6000s\n", fr.fn.Name(), b.Index, c.String())
			}
			addEdge(b, b.Succs[0], And(pc, c), st)
			addEdge(b, b.Succs[1], And(pc, Not(c)), st)
			return
		case *ssa.Jump:
			addEdge(b, b.Succs[0], pc, st)
			return
		case *ssa.Return:
			var v Value
			switch len(x.Results) {
			case 0:
			case 1:
				v = ex.escapeSlice(st, fr.val(x.Results[0]), pc)
			default:
				es := make([]Value, len(x.Results))
				for i, r := range x.Results {
					// a slice of a local array that is returned outlives the frame
					es[i] = ex.escapeSlice(st, fr.val(r), pc)
				}
				v = TupleV{es}
			}
			fr.rets = append(fr.rets, retEntry{pc, st, v})
			return
		case *ssa.Panic:
			ex.oblige("panic", "explicit", x.Pos(), pc, False, "explicit panic is unreachable")
			return
		default:
			var alive *Term
			pc, st, alive = fr.execInstr(ins, pc, st)
			_ = alive
			if pc == False {
				return
			}
		}
	}
}

func posOf(ins ssa.Instruction) token.Pos {
	if p := ins.Pos(); p.IsValid() {
		return p
	}
	// fall back to a neighbouring instruction
	b := ins.Block()
	for _, i := range b.Instrs {
		if p := i.Pos(); p.IsValid() {
			return p
		}
	}
	return token.NoPos
}

// loopFrameAxioms: a heap array havoc'd at a loop head keeps its entry value at
// every object that was allocated before the loop and that no iteration stores
// to. The set of stored-to references is read off the symbolic state of one
// iteration started from the havoc'd state (dry run): references allocated
// during the iteration are fresh objects; other store targets whose terms only
// mention symbols older than the loop are excluded explicitly; if a store
// target depends on loop-varying state no axiom is emitted for that array.
func (ex *Exec) loopFrameAxioms(fr *Frame, li *loopInfo, pc0 *Term, st0, st1 *State, targetsC map[int]bool, targetsH map[string]bool) {
	if len(targetsH) == 0 {
		return
	}
	water := TB.next
	ex.dry++
	na := len(ex.assumes)
	_, backs := fr.runRegion(li, li.head, []edge{{nil, pc0, st1}})
	ex.assumes = ex.assumes[:na]
	ex.dry--
	_, stb := mergeEdges(backs)
	if stb == nil {
		return
	}
	alloc0 := st0.get("alloc", SArr(SRef, SBool))
	if targetsH["alloc"] {
		// allocation is monotone
		r := BoundVar("b.al", SRef)
		axq := Quant("forall", r, Implies(Select(alloc0, r), Select(st1.get("alloc", SArr(SRef, SBool)), r)))
		instQuant[axq.id] = true
		ex.assume(pc0, axq)
	}
	for name := range targetsH {
		if strings.HasPrefix(name, "ghost|") || name == "alloc" {
			continue
		}
		sort := heapSorts[name]
		if idxSort(sort) != SRef {
			continue
		}
		base := st1.get(name, sort)
		fin := stb.get(name, sort)
		var idxs []*Term
		ok := true
		seen := map[int]bool{}
		var walk func(t *Term)
		walk = func(t *Term) {
			if !ok || seen[t.id] {
				return
			}
			seen[t.id] = true
			switch {
			case t == base:
			case t.op == "store":
				idxs = append(idxs, t.args[1])
				walk(t.args[0])
			case t.op == "ite":
				walk(t.args[1])
				walk(t.args[2])
			default:
				ok = false
			}
		}
		walk(fin)
		if !ok {
			continue
		}
		var excl []*Term
		for _, ix := range idxs {
			if isFreshObjRef(ix, water) {
				continue // allocated inside the iteration: not allocated at loop entry
			}
			if maxLeafID(ix) > water {
				ok = false
				break
			}
			excl = append(excl, ix)
		}
		if !ok {
			continue
		}
		r := BoundVar("b.fr", SRef)
		conds := []*Term{Select(alloc0, r)}
		for _, e := range excl {
			conds = append(conds, Neq(r, e))
		}
		ax := Quant("forall", r, Implies(And(conds...), Eq(Select(st1.get(name, sort), r), Select(st0.get(name, sort), r))))
		instQuant[ax.id] = true
		ex.assume(pc0, ax)
	}
}

func isFreshObjRef(t *Term, water int) bool {
	return t.leaf && t.id > water && (strings.HasPrefix(t.op, "new.") || strings.HasPrefix(t.op, "arr.") || strings.HasPrefix(t.op, "chan") || strings.HasPrefix(t.op, "map") || strings.HasPrefix(t.op, "buf") || strings.HasPrefix(t.op, "escaped"))
}

func maxLeafID(t *Term) int {
	m := 0
	seen := map[int]bool{}
	var visit func(x *Term)
	visit = func(x *Term) {
		if seen[x.id] {
			return
		}
		seen[x.id] = true
		if x.leaf && x.id > m {
			m = x.id
		}
		for _, a := range x.args {
			visit(a)
		}
	}
	visit(t)
	return m
}

// pointFirst: block b is the first block (lowest index) that has an
// instruction on the line of the point assertion, so that the assertion fires
// once, before the statement.
func (fr *Frame) pointFirst(ps *PointSpec, b *ssa.BasicBlock) bool {
	if fr.pointBlock == nil {
		fr.pointBlock = map[int]*ssa.BasicBlock{}
	}
	if pb, ok := fr.pointBlock[ps.Index]; ok {
		return pb == b
	}
	var best *ssa.BasicBlock
	for _, blk := range fr.rpo {
		for _, ins := range blk.Instrs {
			if _, isDbg := ins.(*ssa.DebugRef); isDbg {
				continue
			}
			if p := ins.Pos(); p.IsValid() {
				pos := fr.ex.fset.Position(p)
				if pos.Line == ps.SrcLine && pos.Filename == ps.SrcFile {
					best = blk
					break
				}
			}
		}
		if best != nil {
			break
		}
	}
	fr.pointBlock[ps.Index] = best
	return best == b
}
