package main

// Idealised contracts of the cryptographic primitives used by mailbox/noise.go
// ("abstract bytes"): outputs are uninterpreted functions of fingerprints of
// their inputs. They are assumptions (listed in the evidence of every check
// that uses them); no secrecy statement is made.

import (
	"fmt"
	"go/token"
	"go/types"

	"golang.org/x/tools/go/ssa"
)

const SFP = "(_ BitVec 256)"

// fp: fingerprint of a byte string (content + length).
func (ex *Exec) fp(st *State, sl SliceV) *Term {
	arr := ex.sliceArr(st, sl, 0, SBV(8))
	return canonFP(arr, sl.Off, sl.Len, 0)
}

// canonFP: fingerprint of the bytes arr[off, off+n). A buffer that was built by
// copying is fingerprinted through its sources (a copy of X has the fingerprint
// of X; X followed by Y has fpcat(fp X, fp Y)), so that equal byte strings that
// were assembled in the same way get syntactically equal fingerprints.
func canonFP(arr, off, n *Term, depth int) *Term {
	DeclareFun("fpr", []string{SByteArr, SBV(64), SBV(64)}, SFP)
	DeclareFun("fpcat", []string{SFP, SFP}, SFP)
	if n.lit && n.val.Sign() == 0 {
		return BV(0, 256) // the empty string
	}
	if arr.op == "copyarr" && depth < 8 {
		dst, doff, src, soff, cn := arr.args[0], arr.args[1], arr.args[2], arr.args[3], arr.args[4]
		if doff == off && cn == n {
			return canonFP(src, soff, n, depth+1)
		}
		// the copy is the tail of the range: head ++ copy
		head := BVSub(n, cn)
		if doff == BVAdd(off, head) {
			if head.lit && head.val.Sign() == 0 {
				return canonFP(src, soff, cn, depth+1)
			}
			return App("fpcat", SFP, canonFP(dst, off, head, depth+1), canonFP(src, soff, cn, depth+1))
		}
		// the copy lies entirely after the range: it does not matter
		if doff == BVAdd(off, n) {
			return canonFP(dst, off, n, depth+1)
		}
	}
	return leafFP(arr, off, n)
}

// sealRec: what a Seal call encrypted, keyed by the id of its sealbytes term
// (AEAD correctness: Open on exactly that ciphertext under the same key, nonce
// and associated data succeeds and returns that plaintext).
type sealRec struct {
	key, nonce, ad      *Term
	ptArr, ptOff, ptLen *Term
}

var sealInfo = map[int]sealRec{}

// resolveCopy follows whole-range copies: the bytes arr[off, off+n) are the
// bytes src[soff, soff+n) of the returned array.
func resolveCopy(arr, off, n *Term, depth int) (*Term, *Term) {
	for depth < 12 && arr.op == "copyarr" {
		dst, doff, src, soff, cn := arr.args[0], arr.args[1], arr.args[2], arr.args[3], arr.args[4]
		switch {
		case doff == off && cn == n:
			arr, off = src, soff
		case doff == BVAdd(off, n):
			arr = dst // the copy lies entirely after the range
		case BVAdd(doff, cn) == off:
			arr = dst // the copy lies entirely before the range
		default:
			return arr, off
		}
		depth++
	}
	return arr, off
}

type copySrc struct {
	guard, arr, off *Term
}

// resolveCopyG is resolveCopy through if-then-else arrays (merged states): one
// guarded source per branch.
func resolveCopyG(guard, arr, off, n *Term, depth int) []copySrc {
	a, o := resolveCopy(arr, off, n, 0)
	if a.op == "ite" && depth < 4 {
		c := a.args[0]
		out := resolveCopyG(And(guard, c), a.args[1], o, n, depth+1)
		return append(out, resolveCopyG(And(guard, Not(c)), a.args[2], o, n, depth+1)...)
	}
	return []copySrc{{guard, a, o}}
}

// leafFP: fingerprint of a byte range that is not a copy. Short constant-length
// ranges are fingerprinted through their packed contents (so that two arrays
// with equal bytes in the range have equal fingerprints by congruence); longer
// or symbolic-length ranges through the array itself.
func leafFP(arr, off, n *Term) *Term {
	if n.lit && n.val.IsInt64() && n.val.Int64() > 0 && n.val.Int64() <= 64 {
		k := int(n.val.Int64())
		var acc *Term
		for i := 0; i < k; i++ {
			b := SelectA(arr, BVAdd(off, BV(uint64(i), 64)))
			if acc == nil {
				acc = b
			} else {
				acc = Concat(acc, b)
			}
		}
		name := fmt.Sprintf("fpk%d", k)
		DeclareFun(name, []string{SBV(8 * k)}, SFP)
		return App(name, SFP, acc)
	}
	return App("fpr", SFP, arr, off, n)
}

// pack packs n bytes (n <= 32) of a slice into a BV256 (exact, quantifier-free).
func (ex *Exec) pack(st *State, sl SliceV, n int) *Term {
	var acc *Term
	for i := 0; i < n; i++ {
		b := ex.elemLoad(st, sl, BV(uint64(i), 64)).(IntV).T
		if acc == nil {
			acc = b
		} else {
			acc = Concat(acc, b)
		}
	}
	if acc == nil {
		return BV(0, 256)
	}
	return ZeroExt(acc, 256)
}

func packArr(a *Term, n int) *Term {
	var acc *Term
	for i := 0; i < n; i++ {
		b := SelectA(a, BV(uint64(i), 64))
		if acc == nil {
			acc = b
		} else {
			acc = Concat(acc, b)
		}
	}
	return acc
}

func ufBytes(name string, args ...*Term) *Term {
	var sorts []string
	for _, a := range args {
		sorts = append(sorts, a.sort)
	}
	DeclareFun(name, sorts, SByteArr)
	return App(name, SByteArr, args...)
}

const (
	tagAEAD = 0x7001
	tagHKDF = 0x7002
	tagHash = 0x7003
	tagHMAC = 0x7004
)

func ghostRefArr(st *State, name, elem string) *Term { return st.get("ghost|"+name, SArr(SRef, elem)) }

func init() {
	m := stdModels
	// chacha20poly1305.New(key) (cipher.AEAD, error)
	m["golang.org/x/crypto/chacha20poly1305.New"] = func(fr *Frame, fn *ssa.Function, args []Value, pc *Term, st *State, pos token.Pos, resT types.Type) callResult {
		used(fr, "chacha20poly1305.New (AEAD keyed by the 32 key bytes; error iff len(key) != 32)")
		ex := fr.ex
		key := args[0].(SliceV)
		r := ex.freshRef(st, pc, "aead")
		ka := ghostRefArr(st, "aead.key", SFP)
		st.set("ghost|aead.key", Store(ka, r, ex.pack(st, key, 32)))
		okLen := Eq(key.Len, BV(32, 64))
		aead := MergeV(okLen, IfaceV{BV(tagAEAD, 16), ZeroExt(r, 64)}, IfaceV{BV(0, 16), BV(0, 64)})
		return callResult{val: TupleV{[]Value{aead, ex.errValue(okLen, "chacha")}}, st: st}
	}
	// hkdf.New(hash, secret, salt, info) io.Reader
	m["golang.org/x/crypto/hkdf.New"] = func(fr *Frame, fn *ssa.Function, args []Value, pc *Term, st *State, pos token.Pos, resT types.Type) callResult {
		used(fr, "hkdf.New/Read (output stream is a function of secret, salt and info; Read fills the whole buffer)")
		ex := fr.ex
		r := ex.freshRef(st, pc, "hkdf")
		secret, salt, info := args[1].(SliceV), args[2].(SliceV), args[3].(SliceV)
		st.set("ghost|hkdf.secret", Store(ghostRefArr(st, "hkdf.secret", SFP), r, ex.fp(st, secret)))
		st.set("ghost|hkdf.salt", Store(ghostRefArr(st, "hkdf.salt", SFP), r, ex.fp(st, salt)))
		st.set("ghost|hkdf.info", Store(ghostRefArr(st, "hkdf.info", SFP), r, ex.fp(st, info)))
		st.set("ghost|hkdf.pos", Store(ghostRefArr(st, "hkdf.pos", SBV(64)), r, BV(0, 64)))
		return callResult{val: IfaceV{BV(tagHKDF, 16), ZeroExt(r, 64)}, st: st}
	}
	// sha256.New() hash.Hash ; sha256.Sum256
	m["crypto/sha256.New"] = func(fr *Frame, fn *ssa.Function, args []Value, pc *Term, st *State, pos token.Pos, resT types.Type) callResult {
		used(fr, "sha256.New/Write/Sum (digest is a function of the concatenation of the bytes written)")
		ex := fr.ex
		r := ex.freshRef(st, pc, "sha256")
		st.set("ghost|hash.len", Store(ghostRefArr(st, "hash.len", SBV(64)), r, BV(0, 64)))
		return callResult{val: IfaceV{BV(tagHash, 16), ZeroExt(r, 64)}, st: st}
	}
	m["crypto/sha256.Sum256"] = func(fr *Frame, fn *ssa.Function, args []Value, pc *Term, st *State, pos token.Pos, resT types.Type) callResult {
		used(fr, "sha256.Sum256 (function of the input bytes)")
		data := args[0].(SliceV)
		return callResult{val: ArrV{A: ufBytes("sha256", fr.ex.fp(st, data)), N: 32, Elem: types.Typ[types.Uint8]}, st: st}
	}
	m["crypto/sha512.Sum512"] = func(fr *Frame, fn *ssa.Function, args []Value, pc *Term, st *State, pos token.Pos, resT types.Type) callResult {
		used(fr, "sha512.Sum512 (function of the input bytes)")
		data := args[0].(SliceV)
		return callResult{val: ArrV{A: ufBytes("sha512", fr.ex.fp(st, data)), N: 64, Elem: types.Typ[types.Uint8]}, st: st}
	}
	// btcec.PublicKey.SerializeCompressed (value receiver): 33 bytes that are a
	// function of the key's coordinates
	m["(github.com/decred/dcrd/dcrec/secp256k1/v4.PublicKey).SerializeCompressed"] = func(fr *Frame, fn *ssa.Function, args []Value, pc *Term, st *State, pos token.Pos, resT types.Type) callResult {
		used(fr, "btcec.PublicKey.SerializeCompressed (33 bytes, a function of the key's coordinates)")
		ex := fr.ex
		n := BV(33, 64)
		out := ex.allocSlice(st, types.Typ[types.Uint8], n, n, pc, "pubser")
		if bits := flatBits(args[0]); bits != nil {
			arr := ex.sliceArr(st, out, 0, SBV(8))
			ex.setSliceArr(st, out, 0, CopyArr(arr, BV(0, 64), ufBytes("pubser", bits), BV(0, 64), n))
		}
		return callResult{val: out, st: st}
	}
	// scrypt.Key(password, salt, N, r, p, keyLen): keyLen bytes that are a function of password and salt
	m["golang.org/x/crypto/scrypt.Key"] = func(fr *Frame, fn *ssa.Function, args []Value, pc *Term, st *State, pos token.Pos, resT types.Type) callResult {
		used(fr, "scrypt.Key (keyLen bytes, a function of password and salt; error arbitrary)")
		ex := fr.ex
		pw, salt := args[0].(SliceV), args[1].(SliceV)
		kl := SignExtTo64(args[5].(IntV).T, types.Typ[types.Int])
		out := ex.allocSlice(st, types.Typ[types.Uint8], kl, kl, pc, "scrypt")
		arr := ex.sliceArr(st, out, 0, SBV(8))
		ex.setSliceArr(st, out, 0, CopyArr(arr, BV(0, 64), ufBytes("scrypt", ex.fp(st, pw), ex.fp(st, salt)), BV(0, 64), kl))
		okB := Fresh("scrypt.ok", SBool)
		res := MergeV(okB, out, ZeroV(types.NewSlice(types.Typ[types.Uint8])))
		return callResult{val: TupleV{[]Value{res, ex.errValue(okB, "scrypt")}}, st: st}
	}
	m["crypto/hmac.New"] = func(fr *Frame, fn *ssa.Function, args []Value, pc *Term, st *State, pos token.Pos, resT types.Type) callResult {
		used(fr, "hmac.New/Write/Sum (MAC is a function of key and message)")
		ex := fr.ex
		r := ex.freshRef(st, pc, "hmac")
		key := args[1].(SliceV)
		st.set("ghost|hash.len", Store(ghostRefArr(st, "hash.len", SBV(64)), r, BV(0, 64)))
		st.set("ghost|hmac.key", Store(ghostRefArr(st, "hmac.key", SFP), r, ex.fp(st, key)))
		return callResult{val: IfaceV{BV(tagHMAC, 16), ZeroExt(r, 64)}, st: st}
	}
}

// cryptoInvoke models interface method calls on the idealised crypto objects.
func (fr *Frame) cryptoInvoke(cc *ssa.CallCommon, recv Value, args []Value, pc *Term, st *State, pos token.Pos, resT types.Type) (callResult, bool) {
	ex := fr.ex
	iv, ok := recv.(IfaceV)
	if !ok {
		return callResult{}, false
	}
	tname := typeKey(cc.Value.Type())
	m := cc.Method.Name()
	ref := Extract(iv.Pay, 31, 0)
	byteT := types.Typ[types.Uint8]
	switch {
	case tname == "cipher.AEAD" && m == "Seal":
		// Seal(dst, nonce, plaintext, ad) = dst ++ sealbytes(key, nonce, ad, plaintext)
		ex.ctx.usedModels["cipher.AEAD.Seal/Open (deterministic AEAD: ciphertext is a function of key, nonce, associated data and plaintext; Open succeeds only on len >= 16)"]++
		ex.oblige("nil", "invoke Seal", pos, pc, Neq(iv.Tag, BV(0, 16)), "AEAD is not nil")
		dst, nonce, pt, ad := args[0].(SliceV), args[1].(SliceV), args[2].(SliceV), args[3].(SliceV)
		ex.oblige("alias", "Seal dst", pos, pc, Eq(dst.Cap, dst.Len), "dst has no spare capacity (otherwise the result shares dst's backing array, which the model of Seal - a fresh result - does not cover)")
		key := Select(ghostRefArr(st, "aead.key", SFP), ref)
		nl := BVAdd(BVAdd(dst.Len, pt.Len), BV(16, 64))
		out := ex.allocSlice(st, byteT, nl, nl, pc, "seal")
		body := ufBytes("sealbytes", key, ex.pack(st, nonce, 12), ex.fp(st, ad), ex.fp(st, pt))
		sealInfo[body.id] = sealRec{key: key, nonce: ex.pack(st, nonce, 12), ad: ex.fp(st, ad),
			ptArr: ex.sliceArr(st, pt, 0, SBV(8)), ptOff: pt.Off, ptLen: pt.Len}
		arr := ex.sliceArr(st, out, 0, SBV(8))
		arr = CopyArr(arr, BV(0, 64), ex.sliceArr(st, dst, 0, SBV(8)), dst.Off, dst.Len)
		arr = CopyArr(arr, dst.Len, body, BV(0, 64), BVAdd(pt.Len, BV(16, 64)))
		ex.setSliceArr(st, out, 0, arr)
		// ghost log of encryptions: (key, nonce)
		n := st.get("ghost|seal.n", SBV(64))
		st.set("ghost|seal.key", Store(st.get("ghost|seal.key", SArr(SBV(64), SFP)), n, key))
		st.set("ghost|seal.nonce", Store(st.get("ghost|seal.nonce", SArr(SBV(64), SFP)), n, ex.pack(st, nonce, 12)))
		st.set("ghost|seal.pt", Store(st.get("ghost|seal.pt", SArr(SBV(64), SFP)), n, ex.fp(st, pt)))
		st.set("ghost|seal.ad", Store(st.get("ghost|seal.ad", SArr(SBV(64), SFP)), n, ex.fp(st, ad)))
		st.set("ghost|seal.out", Store(st.get("ghost|seal.out", SArr(SBV(64), SRef)), n, out.ID))
		st.set("ghost|seal.n", ex.bump(pc, n))
		return callResult{val: out, st: st}, true
	case tname == "cipher.AEAD" && m == "Open":
		ex.ctx.usedModels["cipher.AEAD.Seal/Open (deterministic AEAD: ciphertext is a function of key, nonce, associated data and plaintext; Open succeeds only on len >= 16)"]++
		ex.oblige("nil", "invoke Open", pos, pc, Neq(iv.Tag, BV(0, 16)), "AEAD is not nil")
		dst, nonce, ct, ad := args[0].(SliceV), args[1].(SliceV), args[2].(SliceV), args[3].(SliceV)
		ex.oblige("alias", "Open dst", pos, pc, Eq(dst.Cap, dst.Len), "dst has no spare capacity (otherwise the result shares dst's backing array, which the model of Open - a fresh result - does not cover)")
		key := Select(ghostRefArr(st, "aead.key", SFP), ref)
		okB := Fresh("open.ok", SBool)
		ex.assume(pc, Implies(okB, BVSle(BV(16, 64), ct.Len)))
		ptLen := BVSub(ct.Len, BV(16, 64))
		nl := BVAdd(dst.Len, ptLen)
		out := ex.allocSlice(st, byteT, nl, nl, pc, "open")
		body := ufBytes("openbytes", key, ex.pack(st, nonce, 12), ex.fp(st, ad), ex.fp(st, ct))
		// AEAD correctness (not an idealisation): opening exactly the output of a
		// Seal under the same key, nonce and associated data succeeds and yields
		// the plaintext that was sealed
		for _, cs := range resolveCopyG(True, ex.sliceArr(st, ct, 0, SBV(8)), ct.Off, ct.Len, 0) {
			if os_debug {
				fmt.Printf("OPEN ct resolves to %s at %.60s under %.60s\n", cs.arr.op, cs.off.String(), cs.guard.String())
				if cs.arr.op == "copyarr" {
					a := cs.arr
					fmt.Printf("   want off=%.40s n=%.60s ; copyarr dst=%s doff=%.60s src=%s soff=%.40s cn=%.90s\n", cs.off.String(), ct.Len.String(), a.args[0].op, a.args[1].String(), a.args[2].op, a.args[3].String(), a.args[4].String())
				}
			}
			if cs.arr.op != "sealbytes" || !cs.off.lit || cs.off.val.Sign() != 0 {
				continue
			}
			rec, known := sealInfo[cs.arr.id]
			if !known {
				continue
			}
			match := And(cs.guard, Eq(key, rec.key), Eq(ex.pack(st, nonce, 12), rec.nonce), Eq(ex.fp(st, ad), rec.ad), Eq(ct.Len, BVAdd(rec.ptLen, BV(16, 64))))
			i := BoundVar("b.rt", SBV(64))
			q := Quant("forall", i, Implies(And(BVSle(BV(0, 64), i), BVSlt(i, rec.ptLen)),
				Eq(Select(body, i), SelectA(rec.ptArr, BVAdd(rec.ptOff, i)))))
			instQuant[q.id] = true
			ex.assume(pc, Implies(match, And(okB, q)))
			ex.ctx.usedModels["AEAD correctness: Open(k, n, ad, Seal(k, n, ad, p)) succeeds and returns p"]++
		}
		arr := ex.sliceArr(st, out, 0, SBV(8))
		arr = CopyArr(arr, BV(0, 64), ex.sliceArr(st, dst, 0, SBV(8)), dst.Off, dst.Len)
		arr = CopyArr(arr, dst.Len, body, BV(0, 64), ptLen)
		ex.setSliceArr(st, out, 0, arr)
		n := st.get("ghost|open.n", SBV(64))
		st.set("ghost|open.key", Store(st.get("ghost|open.key", SArr(SBV(64), SFP)), n, key))
		st.set("ghost|open.nonce", Store(st.get("ghost|open.nonce", SArr(SBV(64), SFP)), n, ex.pack(st, nonce, 12)))
		st.set("ghost|open.ct", Store(st.get("ghost|open.ct", SArr(SBV(64), SFP)), n, ex.fp(st, ct)))
		st.set("ghost|open.ad", Store(st.get("ghost|open.ad", SArr(SBV(64), SFP)), n, ex.fp(st, ad)))
		st.set("ghost|open.ok", Store(st.get("ghost|open.ok", SArr(SBV(64), SBool)), n, okB))
		st.set("ghost|open.n", ex.bump(pc, n))
		res := MergeV(okB, out, ZeroV(types.NewSlice(byteT)))
		return callResult{val: TupleV{[]Value{res, ex.errValue(okB, "open")}}, st: st}, true
	case iv.Tag == BV(tagHKDF, 16) && m == "Read":
		p := args[0].(SliceV)
		posA := ghostRefArr(st, "hkdf.pos", SBV(64))
		cur := Select(posA, ref)
		stream := ufBytes("hkdfbytes", Select(ghostRefArr(st, "hkdf.secret", SFP), ref), Select(ghostRefArr(st, "hkdf.salt", SFP), ref), Select(ghostRefArr(st, "hkdf.info", SFP), ref))
		arr := ex.sliceArr(st, p, 0, SBV(8))
		ex.setSliceArr(st, p, 0, CopyArr(arr, p.Off, stream, cur, p.Len))
		st.set("ghost|hkdf.pos", Store(posA, ref, BVAdd(cur, p.Len)))
		return callResult{val: TupleV{[]Value{IntV{p.Len}, ZeroV(types.Universe.Lookup("error").Type())}}, st: st}, true
	case (iv.Tag == BV(tagHash, 16) || iv.Tag == BV(tagHMAC, 16)) && m == "Write":
		p := args[0].(SliceV)
		lenA := ghostRefArr(st, "hash.len", SBV(64))
		cur := Select(lenA, ref)
		buf := SliceV{St: StDyn, ID: ref, Off: BV(0, 64), Len: cur, Cap: cur, Elem: byteT}
		da := ex.sliceArr(st, buf, 0, SBV(8))
		ex.setSliceArr(st, buf, 0, CopyArr(da, cur, ex.sliceArr(st, p, 0, SBV(8)), p.Off, p.Len))
		st.set("ghost|hash.len", Store(lenA, ref, BVAdd(cur, p.Len)))
		return callResult{val: TupleV{[]Value{IntV{p.Len}, ZeroV(types.Universe.Lookup("error").Type())}}, st: st}, true
	case (iv.Tag == BV(tagHash, 16) || iv.Tag == BV(tagHMAC, 16)) && m == "Sum":
		b := args[0].(SliceV)
		cur := Select(ghostRefArr(st, "hash.len", SBV(64)), ref)
		buf := SliceV{St: StDyn, ID: ref, Off: BV(0, 64), Len: cur, Cap: cur, Elem: byteT}
		var digest *Term
		if iv.Tag == BV(tagHash, 16) {
			digest = ufBytes("sha256", ex.fp(st, buf))
		} else {
			digest = ufBytes("hmac256", Select(ghostRefArr(st, "hmac.key", SFP), ref), ex.fp(st, buf))
		}
		nl := BVAdd(b.Len, BV(32, 64))
		out := ex.allocSlice(st, byteT, nl, nl, pc, "sum")
		arr := ex.sliceArr(st, out, 0, SBV(8))
		arr = CopyArr(arr, BV(0, 64), ex.sliceArr(st, b, 0, SBV(8)), b.Off, b.Len)
		arr = CopyArr(arr, b.Len, digest, BV(0, 64), BV(32, 64))
		ex.setSliceArr(st, out, 0, arr)
		return callResult{val: out, st: st}, true
	}
	return callResult{}, false
}

var _ = fmt.Sprintf

// nonce12: packed 12-byte AEAD nonce built from a counter as in cipherState:
// four zero bytes followed by the little-endian 64-bit counter.
func nonce12(n *Term) *Term {
	var acc *Term = BV(0, 32)
	for i := 0; i < 8; i++ {
		acc = Concat(acc, Extract(n, 8*i+7, 8*i))
	}
	return ZeroExt(acc, 256)
}

// cryptoSpec evaluates the spec builtins over the ghost crypto logs.
func (ex *Exec) cryptoSpec(name string, arg func(i int) Value, env *SpecEnv) (Value, bool) {
	st := env.st
	idx := func(i int) *Term { return arg(i).(IntV).T }
	switch name {
	case "nseals":
		return IntV{st.get("ghost|seal.n", SBV(64))}, true
	case "nopens":
		return IntV{st.get("ghost|open.n", SBV(64))}, true
	case "sealkeyis", "openkeyis":
		k := "seal"
		if name == "openkeyis" {
			k = "open"
		}
		key := arg(1).(ArrV)
		return BoolV{Eq(Select(st.get("ghost|"+k+".key", SArr(SBV(64), SFP)), idx(0)), ZeroExt(packArr(key.A, 32), 256))}, true
	case "sealnonceis", "opennonceis":
		k := "seal"
		if name == "opennonceis" {
			k = "open"
		}
		return BoolV{Eq(Select(st.get("ghost|"+k+".nonce", SArr(SBV(64), SFP)), idx(0)), nonce12(arg(1).(IntV).T))}, true
	case "sealptis":
		return BoolV{Eq(Select(st.get("ghost|seal.pt", SArr(SBV(64), SFP)), idx(0)), ex.fp(st, arg(1).(SliceV)))}, true
	case "sealadis":
		return BoolV{Eq(Select(st.get("ghost|seal.ad", SArr(SBV(64), SFP)), idx(0)), ex.fp(st, arg(1).(SliceV)))}, true
	case "openadis":
		return BoolV{Eq(Select(st.get("ghost|open.ad", SArr(SBV(64), SFP)), idx(0)), ex.fp(st, arg(1).(SliceV)))}, true
	case "openctis":
		return BoolV{Eq(Select(st.get("ghost|open.ct", SArr(SBV(64), SFP)), idx(0)), ex.fp(st, arg(1).(SliceV)))}, true
	case "openok":
		return BoolV{Select(st.get("ghost|open.ok", SArr(SBV(64), SBool)), idx(0))}, true
	case "sealoutis":
		sl := arg(1).(SliceV)
		if sl.St != StDyn {
			return BoolV{False}, true
		}
		return BoolV{And(Eq(Select(st.get("ghost|seal.out", SArr(SBV(64), SRef)), idx(0)), sl.ID), Eq(sl.Off, BV(0, 64)))}, true
	case "aeadkeyed":
		iv := arg(0).(IfaceV)
		key := arg(1).(ArrV)
		ref := Extract(iv.Pay, 31, 0)
		return BoolV{And(Neq(iv.Tag, BV(0, 16)), Select(st.get("alloc", SArr(SRef, SBool)), ref),
			Eq(Select(ghostRefArr(st, "aead.key", SFP), ref), ZeroExt(packArr(key.A, 32), 256)))}, true
	case "hkdf0":
		// HKDF stream with an empty secret (Noise split): block j of (salt)
		salt := arg(0).(ArrV)
		DeclareFun("fpr", []string{SByteArr, SBV(64), SBV(64)}, SFP)
		stream := ufBytes("hkdfbytes", BV(0, 256), leafFP(salt.A, BV(0, 64), BV(32, 64)), BV(0, 256))
		a := CopyArr(ConstArr(SByteArr, BV(0, 8)), BV(0, 64), stream, BVMul(idx(1), BV(32, 64)), BV(32, 64))
		return ArrV{A: a, N: 32, Elem: types.Typ[types.Uint8]}, true
	case "sealpt2is":
		// the plaintext of the i-th Seal were the two bytes b0 b1
		arr := Store(Store(ConstArr(SByteArr, BV(0, 8)), BV(0, 64), arg(1).(IntV).T), BV(1, 64), arg(2).(IntV).T)
		DeclareFun("fpr", []string{SByteArr, SBV(64), SBV(64)}, SFP)
		return BoolV{Eq(Select(st.get("ghost|seal.pt", SArr(SBV(64), SFP)), idx(0)), leafFP(arr, BV(0, 64), BV(2, 64)))}, true
	case "sealad32is", "openad32is":
		// the associated data of the i-th Seal/Open were the 32 bytes d
		k := "seal"
		if name == "openad32is" {
			k = "open"
		}
		d := arg(1).(ArrV)
		return BoolV{Eq(Select(st.get("ghost|"+k+".ad", SArr(SBV(64), SFP)), idx(0)), canonFP(d.A, BV(0, 64), BV(32, 64), 0))}, true
	case "isscrypt":
		// isscrypt(out, pw): out holds the 32 bytes scrypt(pw, salt = pw)
		out, pw := arg(0).(SliceV), arg(1).(SliceV)
		want := ufBytes("scrypt", ex.fp(st, pw), ex.fp(st, pw))
		eq := Eq(out.Len, BV(32, 64))
		for i := 0; i < 32; i++ {
			eq = And(eq, Eq(ex.elemLoad(st, out, BV(uint64(i), 64)).(IntV).T, Select(want, BV(uint64(i), 64))))
		}
		return BoolV{eq}, true
	case "sha256catpub":
		// sha256catpub(d, key): SHA-256 of d followed by the compressed serialisation of key
		d := arg(0).(ArrV)
		kp := arg(1).(PtrV)
		ex.dry++
		ex.inSpec++
		kv := ex.load(st, kp, nil, True, token.NoPos)
		ex.dry--
		ex.inSpec--
		bits := flatBits(kv)
		if bits == nil {
			panic("contract: sha256catpub of a key whose value cannot be flattened")
		}
		DeclareFun("fpcat", []string{SFP, SFP}, SFP)
		f := App("fpcat", SFP, canonFP(d.A, BV(0, 64), BV(32, 64), 0), canonFP(ufBytes("pubser", bits), BV(0, 64), BV(33, 64), 0))
		a := CopyArr(ConstArr(SByteArr, BV(0, 8)), BV(0, 64), ufBytes("sha256", f), BV(0, 64), BV(32, 64))
		return ArrV{A: a, N: 32, Elem: types.Typ[types.Uint8]}, true
	case "sha256cat":
		// sha256cat(d, data): SHA-256 of the 32 bytes d followed by data (mixHash)
		d, data := arg(0).(ArrV), arg(1).(SliceV)
		f := canonFP(d.A, BV(0, 64), BV(32, 64), 0)
		if !(data.Len.lit && data.Len.val.Sign() == 0) {
			DeclareFun("fpcat", []string{SFP, SFP}, SFP)
			f = App("fpcat", SFP, f, ex.fp(st, data))
		}
		a := CopyArr(ConstArr(SByteArr, BV(0, 8)), BV(0, 64), ufBytes("sha256", f), BV(0, 64), BV(32, 64))
		return ArrV{A: a, N: 32, Elem: types.Typ[types.Uint8]}, true
	case "hkdfx":
		// hkdfx(ck, input, j): block j of HKDF(secret = input, salt = ck, info = empty) (mixKey)
		ck, input := arg(0).(ArrV), arg(1).(SliceV)
		stream := ufBytes("hkdfbytes", ex.fp(st, input), canonFP(ck.A, BV(0, 64), BV(32, 64), 0), BV(0, 256))
		a := CopyArr(ConstArr(SByteArr, BV(0, 8)), BV(0, 64), stream, BVMul(idx(2), BV(32, 64)), BV(32, 64))
		return ArrV{A: a, N: 32, Elem: types.Typ[types.Uint8]}, true
	case "hkdf32":
		secret, salt := arg(0).(ArrV), arg(1).(ArrV)
		DeclareFun("fpr", []string{SByteArr, SBV(64), SBV(64)}, SFP)
		stream := ufBytes("hkdfbytes", leafFP(secret.A, BV(0, 64), BV(32, 64)), leafFP(salt.A, BV(0, 64), BV(32, 64)), BV(0, 256))
		blk := idx(2)
		a := CopyArr(ConstArr(SByteArr, BV(0, 8)), BV(0, 64), stream, BVMul(blk, BV(32, 64)), BV(32, 64))
		return ArrV{A: a, N: 32, Elem: types.Typ[types.Uint8]}, true
	}
	return nil, false
}

// flatBits concatenates all scalar components of a by-value struct/array into
// one bit-vector (nil if the value has a component that is not a scalar).
func flatBits(v Value) *Term {
	var acc *Term
	add := func(t *Term) {
		if acc == nil {
			acc = t
		} else {
			acc = Concat(acc, t)
		}
	}
	var walk func(v Value) bool
	walk = func(v Value) bool {
		switch x := v.(type) {
		case IntV:
			add(x.T)
		case BoolV:
			add(Ite(x.T, BV(1, 8), BV(0, 8)))
		case ArrV:
			// an opaque 64-bit name of the whole array value (equal arrays have
			// equal names; cheaper for the solvers than comparing the elements)
			name := "arrname_" + sanitize(x.A.sort)
			DeclareFun(name, []string{x.A.sort}, SBV(64))
			add(App(name, SBV(64), x.A))
		case GoArrV:
			for _, e := range x.E {
				if !walk(e) {
					return false
				}
			}
		case StructV:
			for _, f := range x.F {
				if !walk(f) {
					return false
				}
			}
		default:
			return false
		}
		return true
	}
	if !walk(v) || acc == nil {
		return nil
	}
	return acc
}
