package main

// Memory model: local cells hold Values; heap objects are records of per-field
// SMT arrays indexed by object reference (Burstall); dynamically allocated
// arrays live in element memories bmem|<elem>|k : Ref -> (Array BV64 comp).

import (
	"fmt"
	"go/types"
	"sort"
	"strings"
)

type State struct {
	cells map[int]Value
	heap  map[string]*Term
	dead  bool
}

func NewState() *State { return &State{cells: map[int]Value{}, heap: map[string]*Term{}} }

func (s *State) clone() *State {
	n := &State{cells: make(map[int]Value, len(s.cells)), heap: make(map[string]*Term, len(s.heap))}
	for k, v := range s.cells {
		n.cells[k] = v
	}
	for k, v := range s.heap {
		n.heap[k] = v
	}
	return n
}

// heapSorts remembers the sort of every named heap array.
var heapSorts = map[string]string{}

func (s *State) get(name, sort string) *Term {
	if t, ok := s.heap[name]; ok {
		return t
	}
	heapSorts[name] = sort
	if strings.HasPrefix(name, "ghost|lockheld.") {
		// the verified thread enters holding no lock
		return BV(0, 64)
	}
	if lockSlotNames[name] {
		// the verified thread enters a function holding no lock unless the
		// contract says `requires held(...)`
		return ConstArr(sort, BV(0, 8))
	}
	return Var("H0|"+name, sort)
}

var lockSlotNames = map[string]bool{}
func (s *State) set(name string, t *Term) {
	heapSorts[name] = t.sort
	s.heap[name] = t
}

// MergeStates builds ite-merged state; conds[i] is the condition under which
// states[i] is the current one (they are mutually exclusive).
func MergeStates(conds []*Term, states []*State) *State {
	if len(states) == 1 {
		return states[0].clone()
	}
	out := NewState()
	ckeys := map[int]bool{}
	hkeys := map[string]bool{}
	for _, st := range states {
		for k := range st.cells {
			ckeys[k] = true
		}
		for k := range st.heap {
			hkeys[k] = true
		}
	}
	for k := range ckeys {
		var cur Value
		for i := len(states) - 1; i >= 0; i-- {
			v, ok := states[i].cells[k]
			if !ok {
				continue
			}
			if cur == nil {
				cur = v
			} else {
				cur = mergeSafe(conds[i], v, cur)
			}
		}
		out.cells[k] = cur
	}
	var hk []string
	for k := range hkeys {
		hk = append(hk, k)
	}
	sort.Strings(hk)
	for _, k := range hk {
		var cur *Term
		for i := len(states) - 1; i >= 0; i-- {
			t := states[i].get(k, heapSorts[k])
			if cur == nil {
				cur = t
			} else {
				cur = Ite(conds[i], t, cur)
			}
		}
		out.heap[k] = cur
	}
	return out
}

// mergeSafe merges, replacing unmergeable values by a poison marker.
func mergeSafe(c *Term, a, b Value) (res Value) {
	defer func() {
		if r := recover(); r != nil {
			if _, ok := r.(shapeMismatch); ok {
				if os_debug {
					fmt.Println("POISON:", r)
				}
				res = PoisonV{Why: fmt.Sprint(r)}
				return
			}
			panic(r)
		}
	}()
	if _, ok := a.(PoisonV); ok {
		return a
	}
	if _, ok := b.(PoisonV); ok {
		return b
	}
	return MergeV(c, a, b)
}

// PoisonV marks a value the engine could not represent; using it is reported.
type PoisonV struct{ Why string }

func (v PoisonV) comps() []*Term          { return nil }
func (v PoisonV) rebuild([]*Term) Value   { return v }
func (v PoisonV) shape() string           { return "poison" }

// ---------------------------------------------------------------- templates

type gen func(sort, hint string) *Term

func isSpecialStruct(t types.Type) string {
	switch {
	case isNamed(t, "time", "Time"):
		return "time"
	case isNamed(t, "sync", "Mutex"), isNamed(t, "sync", "RWMutex"):
		return "lock"
	case isNamed(t, "sync", "Once"):
		return "once"
	case isNamed(t, "sync", "WaitGroup"):
		return "opaque"
	case isNamed(t, "bytes", "Buffer"):
		return "buf"
	case isNamed(t, "sync/atomic", "Bool"), isNamed(t, "sync/atomic", "Int32"), isNamed(t, "sync/atomic", "Int64"),
		isNamed(t, "sync/atomic", "Uint32"), isNamed(t, "sync/atomic", "Uint64"):
		return "opaque"
	}
	return ""
}

// mkValue builds a value of Go type t whose components come from g.
func mkValue(t types.Type, g gen, hint string) Value {
	t = types.Unalias(t)
	switch isSpecialStruct(t) {
	case "time":
		return TimeV{g(SBV(64), hint)}
	case "lock":
		return LockV{g(SBV(8), hint)}
	case "once":
		return OnceV{g(SBool, hint)}
	case "opaque":
		return OpaqueV{g(SBV(64), hint)}
	case "buf":
		return BufV{g(SRef, hint+".id"), g(SBV(64), hint+".len")}
	}
	switch u := t.Underlying().(type) {
	case *types.Basic:
		if w, _, ok := isIntType(t); ok {
			return IntV{g(SBV(w), hint)}
		}
		switch u.Kind() {
		case types.Bool, types.UntypedBool:
			return BoolV{g(SBool, hint)}
		case types.Float32:
			return FloatV{g(SF32, hint)}
		case types.Float64, types.UntypedFloat:
			return FloatV{g(SF64, hint)}
		case types.String, types.UntypedString:
			return StringV{g(SBV(64), hint+".id"), g(SBV(64), hint+".len")}
		case types.UnsafePointer:
			return OpaqueV{g(SBV(64), hint)}
		case types.UntypedNil:
			return PtrV{Kind: PHeap, Ref: g(SRef, hint)}
		}
		return OpaqueV{g(SBV(64), hint)}
	case *types.Pointer:
		return PtrV{Kind: PHeap, Ref: g(SRef, hint), Root: u.Elem()}
	case *types.Slice:
		return SliceV{St: StDyn, ID: g(SRef, hint+".id"), Off: g(SBV(64), hint+".off"), Len: g(SBV(64), hint+".len"), Cap: g(SBV(64), hint+".cap"), Elem: u.Elem()}
	case *types.Struct:
		fs := make([]Value, u.NumFields())
		for i := 0; i < u.NumFields(); i++ {
			fs[i] = mkValue(u.Field(i).Type(), g, hint+"."+u.Field(i).Name())
		}
		return StructV{Typ: t, F: fs}
	case *types.Array:
		if es, ok := scalarSort(u.Elem()); ok {
			return ArrV{A: g(SArr(SBV(64), es), hint), N: u.Len(), Elem: u.Elem()}
		}
		if u.Len() > 64 {
			return OpaqueV{g(SBV(64), hint)}
		}
		es := make([]Value, u.Len())
		for i := range es {
			es[i] = mkValue(u.Elem(), g, fmt.Sprintf("%s[%d]", hint, i))
		}
		return GoArrV{E: es, Elem: u.Elem()}
	case *types.Interface:
		return IfaceV{g(SBV(16), hint+".tag"), g(SBV(64), hint+".pay")}
	case *types.Chan:
		return ChanV{g(SRef, hint)}
	case *types.Map:
		return MapV{g(SRef, hint)}
	case *types.Signature:
		return FuncV{ID: g(SRef, hint)}
	case *types.Tuple:
		es := make([]Value, u.Len())
		for i := range es {
			es[i] = mkValue(u.At(i).Type(), g, fmt.Sprintf("%s#%d", hint, i))
		}
		return TupleV{es}
	}
	return OpaqueV{g(SBV(64), hint)}
}

func zeroOfSort(sort string) *Term {
	switch {
	case sort == SBool:
		return False
	case strings.HasPrefix(sort, "(_ BitVec"):
		return BV(0, bvWidth(sort))
	case sort == SF32:
		return App("(_ +zero 8 24)", SF32)
	case sort == SF64:
		return App("(_ +zero 11 53)", SF64)
	case strings.HasPrefix(sort, "(Array"):
		return ConstArr(sort, zeroOfSort(elemSort(sort)))
	}
	panic("zero of sort " + sort)
}

func ZeroV(t types.Type) Value {
	return mkValue(t, func(sort, hint string) *Term { return zeroOfSort(sort) }, "")
}

func FreshV(t types.Type, hint string) Value {
	return mkValue(t, func(sort, h string) *Term { return Fresh(h, sort) }, hint)
}

// ---------------------------------------------------------------- heap access

func heapName(root types.Type, path []int, k int) string {
	return fmt.Sprintf("%s%s#%d", typeKey(root), pathStr(path), k)
}

// HeapFieldName gives a readable alias used in messages.
func fieldPathName(root types.Type, path []int) string {
	t := root
	var sb strings.Builder
	sb.WriteString(typeKey(root))
	for _, i := range path {
		switch u := types.Unalias(t).Underlying().(type) {
		case *types.Struct:
			sb.WriteString("." + u.Field(i).Name())
			t = u.Field(i).Type()
		case *types.Array:
			fmt.Fprintf(&sb, "[%d]", i)
			t = u.Elem()
		}
	}
	return sb.String()
}

func typeAt(root types.Type, path []int) types.Type {
	t := root
	for _, i := range path {
		switch u := types.Unalias(t).Underlying().(type) {
		case *types.Struct:
			t = u.Field(i).Type()
		case *types.Array:
			t = u.Elem()
		default:
			panic(fmt.Sprintf("typeAt: cannot index %s", t))
		}
	}
	return t
}

func isAggregate(t types.Type) bool {
	t = types.Unalias(t)
	if isSpecialStruct(t) != "" {
		return false
	}
	switch u := t.Underlying().(type) {
	case *types.Struct:
		return true
	case *types.Array:
		if _, ok := scalarSort(u.Elem()); ok {
			return false
		}
		return u.Len() <= 64
	}
	return false
}

func appendPath(p []int, i int) []int {
	out := make([]int, len(p)+1)
	copy(out, p)
	out[len(p)] = i
	return out
}

func (s *State) heapLoad(root types.Type, path []int, ref *Term) Value {
	t := typeAt(root, path)
	if isAggregate(t) {
		switch u := types.Unalias(t).Underlying().(type) {
		case *types.Struct:
			fs := make([]Value, u.NumFields())
			for i := range fs {
				fs[i] = s.heapLoad(root, appendPath(path, i), ref)
			}
			return StructV{Typ: t, F: fs}
		case *types.Array:
			es := make([]Value, u.Len())
			for i := range es {
				es[i] = s.heapLoad(root, appendPath(path, i), ref)
			}
			return GoArrV{E: es, Elem: u.Elem()}
		}
	}
	k := 0
	if isSpecialStruct(t) == "lock" {
		lockSlotNames[heapName(root, path, 0)] = true
	}
	return mkValue(t, func(sort, hint string) *Term {
		arr := s.get(heapName(root, path, k), SArr(SRef, sort))
		k++
		return Select(arr, ref)
	}, "")
}

// heapStore writes v at (root,path) of object ref. It returns an error text if
// the value cannot be represented in the heap.
func (s *State) heapStore(root types.Type, path []int, ref *Term, v Value) string {
	t := typeAt(root, path)
	if _, ok := v.(PoisonV); ok {
		v = FreshV(t, "poison")
	}
	if isAggregate(t) {
		switch x := v.(type) {
		case StructV:
			for i, f := range x.F {
				if e := s.heapStore(root, appendPath(path, i), ref, f); e != "" {
					return e
				}
			}
			return ""
		case GoArrV:
			for i, f := range x.E {
				if e := s.heapStore(root, appendPath(path, i), ref, f); e != "" {
					return e
				}
			}
			return ""
		}
		return fmt.Sprintf("aggregate store of %T", v)
	}
	tmpl := ZeroV(t)
	v = adaptTo(tmpl, v)
	if tmpl.shape() != v.shape() {
		// not representable: havoc the slot
		fv := FreshV(t, "unrep")
		s.heapStore(root, path, ref, fv)
		return fmt.Sprintf("value of shape %s stored into heap slot %s of shape %s was havoc'd", v.shape(), fieldPathName(root, path), tmpl.shape())
	}
	if _, isLock := v.(LockV); isLock {
		lockSlotNames[heapName(root, path, 0)] = true
	}
	for k, c := range v.comps() {
		name := heapName(root, path, k)
		arr := s.get(name, SArr(SRef, c.sort))
		s.set(name, Store(arr, ref, c))
	}
	return ""
}

var funcIDs = map[string]int{}

// adaptTo lets nil literals take the static shape of the destination.
func adaptTo(tmpl, v Value) Value {
	switch t := tmpl.(type) {
	case PtrV:
		if p, ok := v.(PtrV); ok && p.Kind == PHeap && len(p.Path) == 0 {
			p.Root = t.Root
			return p
		}
	case SliceV:
		if p, ok := v.(SliceV); ok && p.St == StDyn {
			p.Elem = t.Elem
			return p
		}
	case FuncV:
		if f, ok := v.(FuncV); ok && f.Fn != nil {
			// a known closure stored in the heap becomes opaque but non-nil
			k, ok := funcIDs[f.Fn.String()]
			if !ok {
				k = len(funcIDs) + 1
				funcIDs[f.Fn.String()] = k
			}
			return FuncV{ID: BV(uint64(0x7f000000+k), 32)}
		}
	}
	return v
}

// ---------------------------------------------------------------- local navigation

func navGet(v Value, path []int) Value {
	for _, i := range path {
		switch x := v.(type) {
		case StructV:
			v = x.F[i]
		case GoArrV:
			v = x.E[i]
		default:
			panic(fmt.Sprintf("navGet: %T has no component %d", v, i))
		}
	}
	return v
}

func navSet(v Value, path []int, nv Value) Value {
	if len(path) == 0 {
		return nv
	}
	switch x := v.(type) {
	case StructV:
		fs := append([]Value(nil), x.F...)
		fs[path[0]] = navSet(x.F[path[0]], path[1:], nv)
		return StructV{x.Typ, fs}
	case GoArrV:
		es := append([]Value(nil), x.E...)
		es[path[0]] = navSet(x.E[path[0]], path[1:], nv)
		return GoArrV{es, x.Elem}
	}
	panic(fmt.Sprintf("navSet: %T has no component", v))
}

// ---------------------------------------------------------------- element memories

func bmemName(elem types.Type, k int) string { return fmt.Sprintf("bmem|%s#%d", typeKey(elem), k) }

// lazy bulk-copy array: select beta-reduces at construction time.
func CopyArr(dst, doff, src, soff, n *Term) *Term {
	if n.lit && n.val.Sign() == 0 {
		return dst
	}
	return App("copyarr", dst.sort, dst, doff, src, soff, n)
}

var selectMemo = map[[2]int]*Term{}

// SelectA is Select with beta reduction of copyarr (memoised: merged states
// share most of their structure).
func SelectA(a, i *Term) *Term {
	key := [2]int{a.id, i.id}
	if r, ok := selectMemo[key]; ok {
		return r
	}
	r := selectA(a, i)
	selectMemo[key] = r
	return r
}

func selectA(a, i *Term) *Term {
	switch a.op {
	case "copyarr":
		dst, doff, src, soff, n := a.args[0], a.args[1], a.args[2], a.args[3], a.args[4]
		in := And(BVUle(doff, i), BVUlt(BVSub(i, doff), n))
		return Ite(in, SelectA(src, BVAdd(soff, BVSub(i, doff))), SelectA(dst, i))
	case "store":
		j := a.args[1]
		if j == i {
			return a.args[2]
		}
		if j.lit && i.lit {
			return SelectA(a.args[0], i)
		}
		if containsCopy(a) {
			return Ite(Eq(i, j), a.args[2], SelectA(a.args[0], i))
		}
	case "ite":
		if containsCopy(a) {
			return Ite(a.args[0], SelectA(a.args[1], i), SelectA(a.args[2], i))
		}
	}
	return Select(a, i)
}

var copyMemo = map[int]bool{}

func containsCopy(a *Term) bool {
	if v, ok := copyMemo[a.id]; ok {
		return v
	}
	r := false
	switch a.op {
	case "copyarr":
		r = true
	case "store":
		r = containsCopy(a.args[0]) || (strings.HasPrefix(a.args[2].sort, "(Array") && containsCopy(a.args[2]))
	case "ite":
		r = containsCopy(a.args[1]) || containsCopy(a.args[2])
	}
	copyMemo[a.id] = r
	return r
}
