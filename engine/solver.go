package main

// Discharging obligations: every query is a self-contained SMT-LIB 2 script.
// Stage 1 runs one solver with a short timeout, stage 2 races z3 4.8.12,
// z3-new 5.1.0 and cvc5 and takes the first definitive answer.

import (
	"bytes"
	"context"
	"fmt"
	"os"
	"os/exec"
	"path/filepath"
	"runtime"
	"strings"
	"sync"
	"time"
)

type SolveResult struct {
	Status  string // unsat | sat | unknown | timeout | error
	Solver  string
	Seconds float64
	Output  string
	Model   map[string]string // probe term text -> value text
}

type solverSpec struct {
	name    string
	bin     string
	args    func(timeoutS int) []string
	variant bool // another configuration of a solver listed before (not an independent second opinion)
	prefix  string
	lambda  bool // understands z3 lambda / as-array terms
}

var solvers = []solverSpec{
	{name: "z3-5.1.0", bin: "z3-new", args: func(t int) []string { return []string{fmt.Sprintf("-T:%d", t)} }, lambda: true},
	{name: "z3-4.8.12", bin: "z3", args: func(t int) []string { return []string{fmt.Sprintf("-T:%d", t)} }, lambda: true},
	{name: "cvc5-1.0", bin: "cvc5", args: func(t int) []string { return []string{fmt.Sprintf("--tlimit=%d", t*1000)} },
		prefix: "(set-option :produce-models true)\n(set-logic ALL)\n"},
	// the same solver with other random seeds: solver times on the larger VCs
	// vary a lot from run to run; a small portfolio makes the race robust
	{name: "z3-5.1.0/seed7", bin: "z3-new", args: func(t int) []string {
		return []string{fmt.Sprintf("-T:%d", t), "smt.random_seed=7", "sat.random_seed=7"}
	}, lambda: true, variant: true},
	{name: "z3-5.1.0/seed13", bin: "z3-new", args: func(t int) []string {
		return []string{fmt.Sprintf("-T:%d", t), "smt.random_seed=13", "sat.random_seed=13", "smt.arith.random_initial_value=true"}
	}, lambda: true, variant: true},
}

var procSlots = make(chan struct{}, runtime.NumCPU())

var scratchDir string
var scratchOnce sync.Once
var scratchN int
var scratchMu sync.Mutex

func scratch() string {
	scratchOnce.Do(func() {
		base := os.Getenv("LNCVC_TMP")
		if base == "" {
			base = os.TempDir()
		}
		d, err := os.MkdirTemp(base, "lncvc-")
		if err != nil {
			panic(err)
		}
		scratchDir = d
	})
	return scratchDir
}

func cleanupScratch() {
	if scratchDir != "" {
		os.RemoveAll(scratchDir)
	}
}

func runOne(ctx context.Context, sp solverSpec, script string, timeoutS int, probes []string) SolveResult {
	scratchMu.Lock()
	scratchN++
	n := scratchN
	scratchMu.Unlock()
	path := filepath.Join(scratch(), fmt.Sprintf("q%d-%s.smt2", n, sp.name))
	full := sp.prefix + script + "(check-sat)\n"
	for _, p := range probes {
		full += "(get-value (" + p + "))\n"
	}
	if err := os.WriteFile(path, []byte(full), 0o644); err != nil {
		return SolveResult{Status: "error", Solver: sp.name, Output: err.Error()}
	}
	defer os.Remove(path)
	// one CPU per solver process: time limits then measure solver work, not
	// contention between the processes this run started itself
	select {
	case procSlots <- struct{}{}:
	case <-ctx.Done():
		return SolveResult{Status: "timeout", Solver: sp.name}
	}
	defer func() { <-procSlots }()
	cctx, cancel := context.WithTimeout(ctx, time.Duration(timeoutS+2)*time.Second)
	defer cancel()
	cmd := exec.CommandContext(cctx, sp.bin, append(sp.args(timeoutS), path)...)
	var out bytes.Buffer
	cmd.Stdout = &out
	cmd.Stderr = &out
	start := time.Now()
	_ = cmd.Run()
	el := time.Since(start).Seconds()
	text := out.String()
	first := strings.TrimSpace(strings.SplitN(text, "\n", 2)[0])
	res := SolveResult{Solver: sp.name, Seconds: el, Output: text}
	switch {
	case first == "unsat":
		res.Status = "unsat"
	case first == "sat":
		res.Status = "sat"
		res.Model = parseValues(text, probes)
	case first == "unknown":
		res.Status = "unknown"
	case first == "timeout" || cctx.Err() != nil:
		res.Status = "timeout"
	default:
		res.Status = "error"
	}
	return res
}

// parseValues reads the "((term value))" answers following "sat".
func parseValues(text string, probes []string) map[string]string {
	m := map[string]string{}
	lines := strings.Split(text, "\n")
	// answers come in order; each may span lines - join and split on balanced parens
	rest := strings.Join(lines[1:], " ")
	i := 0
	for _, p := range probes {
		// find next "(("
		j := strings.Index(rest[i:], "((")
		if j < 0 {
			break
		}
		j += i
		depth := 0
		k := j
		for ; k < len(rest); k++ {
			if rest[k] == '(' {
				depth++
			} else if rest[k] == ')' {
				depth--
				if depth == 0 {
					break
				}
			}
		}
		if k >= len(rest) {
			break
		}
		inner := strings.TrimSpace(rest[j+2 : k-1]) // "term value"
		// value is the last balanced token
		v := lastToken(inner)
		m[p] = v
		i = k + 1
	}
	return m
}

func lastToken(s string) string {
	s = strings.TrimSpace(s)
	if strings.HasSuffix(s, ")") {
		depth := 0
		for k := len(s) - 1; k >= 0; k-- {
			if s[k] == ')' {
				depth++
			} else if s[k] == '(' {
				depth--
				if depth == 0 {
					return s[k:]
				}
			}
		}
		return s
	}
	k := strings.LastIndexAny(s, " \t")
	return s[k+1:]
}

// Solve discharges one script. usesLambda marks scripts cvc5 cannot parse.
func Solve(script string, probes []string, timeoutS int, usesLambda bool) SolveResult {
	quick := 3
	if timeoutS < quick {
		quick = timeoutS
	}
	r := runOne(context.Background(), solvers[0], script, quick, probes)
	if r.Status == "unsat" || r.Status == "sat" {
		return r
	}
	// race
	ctx, cancel := context.WithCancel(context.Background())
	defer cancel()
	ch := make(chan SolveResult, len(solvers))
	n := 0
	for _, sp := range solvers {
		if usesLambda && !sp.lambda {
			continue
		}
		n++
		go func(sp solverSpec) { ch <- runOne(ctx, sp, script, timeoutS, probes) }(sp)
	}
	best := r
	var tot float64
	for i := 0; i < n; i++ {
		x := <-ch
		tot += x.Seconds
		if x.Status == "unsat" || x.Status == "sat" {
			cancel()
			return x
		}
		if best.Status == "error" || best.Status == "" {
			best = x
		}
		if x.Status == "timeout" && best.Status == "unknown" {
			best = x
		}
	}
	best.Solver = "race(z3-5.1.0 x3 seeds,z3-4.8.12,cvc5-1.0)"
	return best
}

// CrossCheck re-runs a discharged script on the solvers other than the one
// that answered: "unsat" from a second solver confirms the answer, "sat"
// is a disagreement (a tool error, never a pass).
func CrossCheck(script string, first string, usesLambda bool, timeoutS int) (string, string) {
	for _, sp := range solvers {
		if strings.HasPrefix(first, sp.name) || sp.variant || (strings.HasPrefix(first, "z3-5.1.0") && sp.bin == "z3-new") {
			continue
		}
		if usesLambda && !sp.lambda {
			continue
		}
		r := runOne(context.Background(), sp, script, timeoutS, nil)
		switch r.Status {
		case "unsat":
			return sp.name, "unsat"
		case "sat":
			return sp.name, "sat"
		}
	}
	return "", ""
}
