package main

import (
	"fmt"
	"go/constant"
	"go/token"
	"go/types"
	"math/big"
	"os"
	"strings"

	"golang.org/x/tools/go/ssa"
)

func (fr *Frame) val(v ssa.Value) Value {
	switch x := v.(type) {
	case *ssa.Const:
		return fr.ex.constVal(x)
	case *ssa.Function:
		return FuncV{Fn: x}
	case *ssa.Global:
		return PtrV{Kind: PGlobal, Cell: fr.ex.globalCell(x)}
	case *ssa.Builtin:
		return OpaqueV{BV(0, 64)}
	}
	r, ok := fr.regs[v]
	if !ok {
		panic(fmt.Sprintf("no value for %s (%T) in %s", v.Name(), v, fr.fn))
	}
	return r
}

func (ex *Exec) globalCell(g *ssa.Global) *Cell {
	if c, ok := ex.globals[g]; ok {
		return c
	}
	c := ex.newCell("global."+g.Name(), g.Type().(*types.Pointer).Elem())
	ex.globals[g] = c
	return c
}

func (ex *Exec) strID(s string) *Term {
	id, ok := ex.strIDs[s]
	if !ok {
		id = len(ex.strIDs) + 1
		ex.strIDs[s] = id
	}
	return BV(uint64(id), 64)
}

func (ex *Exec) constVal(c *ssa.Const) Value {
	t := c.Type()
	if c.Value == nil {
		return ZeroV(t)
	}
	if w, _, ok := isIntType(t); ok {
		bi, _ := new(big.Int).SetString(c.Value.ExactString(), 10)
		if bi == nil {
			if i, ok := constant.Int64Val(constant.ToInt(c.Value)); ok {
				bi = big.NewInt(i)
			} else {
				bi = big.NewInt(0)
			}
		}
		return IntV{BVBig(bi, w)}
	}
	switch u := t.Underlying().(type) {
	case *types.Basic:
		switch {
		case u.Info()&types.IsBoolean != 0:
			return BoolV{Bool(constant.BoolVal(c.Value))}
		case u.Info()&types.IsString != 0:
			s := constant.StringVal(c.Value)
			return StringV{ex.strID(s), BV(uint64(len(s)), 64)}
		case u.Info()&types.IsFloat != 0:
			f, _ := constant.Float64Val(c.Value)
			sort, eb, sb := SF64, 11, 53
			if u.Kind() == types.Float32 {
				sort, eb, sb = SF32, 8, 24
			}
			r := new(big.Rat).SetFloat64(f)
			lit := fmt.Sprintf("((_ to_fp %d %d) RNE (/ %s.0 %s.0))", eb, sb, r.Num().String(), r.Denom().String())
			if r.Sign() < 0 {
				n := new(big.Int).Neg(r.Num())
				lit = fmt.Sprintf("(fp.neg ((_ to_fp %d %d) RNE (/ %s.0 %s.0)))", eb, sb, n.String(), r.Denom().String())
			}
			return FloatV{App(lit, sort)}
		}
	}
	return FreshV(t, "const")
}

// ---------------------------------------------------------------- pointers

func (ex *Exec) load(st *State, p Value, t types.Type, pc *Term, pos token.Pos) Value {
	switch x := p.(type) {
	case PtrV:
		switch x.Kind {
		case PLocal, PGlobal:
			v, ok := st.cells[x.Cell.id]
			if !ok {
				if x.Kind == PGlobal {
					v = ex.initGlobal(x.Cell, pc)
				} else {
					v = ZeroV(x.Cell.typ)
				}
				st.cells[x.Cell.id] = v
			}
			return navGet(v, x.Path)
		case PHeap:
			if x.Root == nil {
				return FreshV(t, "deref")
			}
			ex.oblige("nil", "deref "+fieldPathName(x.Root, x.Path), pos, pc, Neq(x.Ref, RefNil()), "pointer is not nil")
			ex.guardedAccess(st, x, false, pc, pos)
			v := st.heapLoad(x.Root, x.Path, x.Ref)
			ex.wellFormed(st, v, pc)
			return v
		}
	case ElemPtrV:
		return ex.elemLoad(st, x.Sl, x.Idx)
	case PoisonV:
		ex.note("load through unrepresentable pointer: %s", x.Why)
		return FreshV(t, "poison")
	}
	panic(fmt.Sprintf("load through %T", p))
}

// wellFormed assumes that references read from memory are allocated or nil.
func (ex *Exec) wellFormed(st *State, v Value, pc *Term) {
	if ex.dry > ex.inSpec {
		// dry runs add no facts
		return
	}
	if ex.inSpec > 0 {
		// contract evaluation: facts about bound variables cannot be asserted globally
		for _, c := range v.comps() {
			if hasBound(c) {
				return
			}
		}
	}
	switch x := v.(type) {
	case PtrV:
		if x.Kind == PHeap && !x.Ref.lit && ex.noAlloc == 0 {
			al := st.get("alloc", SArr(SRef, SBool))
			ex.assume(pc, Or(Eq(x.Ref, RefNil()), Select(al, x.Ref)))
			ex.initiallyAllocated(x.Ref, pc)
		}
	case SliceV:
		if x.St == StDyn && !x.ID.lit {
			al := st.get("alloc", SArr(SRef, SBool))
			if ex.noAlloc == 0 {
				ex.assume(pc, Or(Eq(x.ID, RefNil()), Select(al, x.ID)))
				ex.initiallyAllocated(x.ID, pc)
			}
			ex.assume(pc, And(BVSle(BV(0, 64), x.Len), BVSle(x.Len, x.Cap), BVSle(x.Cap, BV(1<<40, 64)),
				BVSle(BV(0, 64), x.Off), BVSle(x.Off, BV(1<<40, 64))))
			ex.assume(pc, Implies(Eq(x.ID, RefNil()), And(Eq(x.Len, BV(0, 64)), Eq(x.Cap, BV(0, 64)))))
		}
	case ChanV:
		if !x.Ref.lit && ex.noAlloc == 0 {
			al := st.get("alloc", SArr(SRef, SBool))
			ex.assume(pc, Or(Eq(x.Ref, RefNil()), Select(al, x.Ref)))
		}
	case MapV:
		if !x.Ref.lit && ex.noAlloc == 0 {
			al := st.get("alloc", SArr(SRef, SBool))
			ex.assume(pc, Or(Eq(x.Ref, RefNil()), Select(al, x.Ref)))
		}
	case StringV:
		ex.assume(pc, And(BVSle(BV(0, 64), x.Len), BVSle(x.Len, BV(1<<40, 64))))
	case BufV:
		ex.assume(pc, And(BVSle(BV(0, 64), x.Len), BVSle(x.Len, BV(1<<40, 64))))
	case StructV:
		for _, f := range x.F {
			ex.wellFormed(st, f, pc)
		}
	case TupleV:
		for _, f := range x.E {
			ex.wellFormed(st, f, pc)
		}
	}
}

// initiallyAllocated: a reference read from memory is either a value the
// function stored there or the value the location held on entry; the entry
// heap only contains references that were allocated on entry (so they differ
// from everything the function allocates itself).
func (ex *Exec) initiallyAllocated(t *Term, pc *Term) {
	if ex.alloc0 == nil || t.op != "select" || t.sort != SRef || os.Getenv("LNCVC_NOINITALLOC") != "" {
		return
	}
	idx := t.args[1]
	seen := map[int]bool{}
	var walk func(a *Term, depth int)
	walk = func(a *Term, depth int) {
		if seen[a.id] || depth > 12 {
			return
		}
		seen[a.id] = true
		switch {
		case a.leaf && (strings.HasPrefix(a.op, "H0|") || strings.HasPrefix(a.op, "H0:")):
			v0 := Select(a, idx)
			if v0.sort == SRef && idx.sort == SRef {
				// (only for objects that existed on entry: the fields of objects
				// created by callees are constrained by their contracts instead)
				ex.assume(pc, Or(Not(Select(ex.alloc0, idx)), Eq(v0, RefNil()), Select(ex.alloc0, v0)))
			}
		case a.op == "store":
			walk(a.args[0], depth+1)
		case a.op == "ite":
			walk(a.args[1], depth+1)
			walk(a.args[2], depth+1)
		}
	}
	walk(t.args[0], 0)
}

func (ex *Exec) initGlobal(c *Cell, pc *Term) Value {
	v := FreshV(c.typ, c.name)
	// package-level error sentinels are non-nil
	if iv, ok := v.(IfaceV); ok && types.Identical(c.typ, types.Universe.Lookup("error").Type()) {
		ex.assumes = append(ex.assumes, Neq(iv.Tag, BV(0, 16)))
		ex.note("assumed: package-level error variable %s is non-nil", c.name)
	}
	return v
}

func (ex *Exec) store(st *State, p Value, v Value, pc *Term, pos token.Pos) {
	switch x := p.(type) {
	case PtrV:
		switch x.Kind {
		case PLocal, PGlobal:
			cur, ok := st.cells[x.Cell.id]
			if !ok {
				if x.Kind == PGlobal {
					cur = ex.initGlobal(x.Cell, pc)
				} else {
					cur = ZeroV(x.Cell.typ)
				}
			}
			if len(x.Path) == 0 {
				st.cells[x.Cell.id] = v
			} else {
				st.cells[x.Cell.id] = navSet(cur, x.Path, v)
			}
			return
		case PHeap:
			if x.Root == nil {
				ex.note("store through untyped pointer ignored")
				return
			}
			ex.oblige("nil", "store "+fieldPathName(x.Root, x.Path), pos, pc, Neq(x.Ref, RefNil()), "pointer is not nil")
			ex.guardedAccess(st, x, true, pc, pos)
			v = ex.escapeSlice(st, v, pc)
			if e := st.heapStore(x.Root, x.Path, x.Ref, v); e != "" {
				ex.note("%s", e)
			}
			return
		}
	case ElemPtrV:
		ex.elemStore(st, x.Sl, x.Idx, v)
		return
	case PoisonV:
		ex.note("store through unrepresentable pointer: %s", x.Why)
		return
	}
	panic(fmt.Sprintf("store through %T", p))
}

// ElemPtrV is a pointer to an element of a slice / array.
type ElemPtrV struct {
	Sl  SliceV
	Idx *Term
}

func (v ElemPtrV) comps() []*Term { return append(v.Sl.comps(), v.Idx) }
func (v ElemPtrV) rebuild(ts []*Term) Value {
	n := len(ts)
	return ElemPtrV{v.Sl.rebuild(ts[:n-1]).(SliceV), ts[n-1]}
}
func (v ElemPtrV) shape() string { return "elem:" + v.Sl.shape() }

// ---------------------------------------------------------------- element access

func (ex *Exec) sliceArr(st *State, sl SliceV, k int, sort string) *Term {
	if sl.Snap != nil && k == 0 {
		return sl.Snap
	}
	switch sl.St {
	case StDyn:
		m := st.get(bmemName(sl.Elem, k), SArr(SRef, SArr(SBV(64), sort)))
		return SelectA(m, sl.ID)
	case StField:
		m := st.get(heapName(sl.Root, sl.Path, 0), SArr(SRef, SArr(SBV(64), sort)))
		return SelectA(m, sl.ID)
	default:
		v, ok := st.cells[sl.Cell.id]
		if !ok {
			v = ZeroV(sl.Cell.typ)
			st.cells[sl.Cell.id] = v
		}
		a, ok := navGet(v, sl.Path).(ArrV)
		if !ok {
			return Fresh("arr", SArr(SBV(64), sort))
		}
		return a.A
	}
}

func (ex *Exec) setSliceArr(st *State, sl SliceV, k int, arr *Term) {
	switch sl.St {
	case StDyn:
		name := bmemName(sl.Elem, k)
		m := st.get(name, SArr(SRef, arr.sort))
		st.set(name, Store(m, sl.ID, arr))
	case StField:
		name := heapName(sl.Root, sl.Path, 0)
		m := st.get(name, SArr(SRef, arr.sort))
		st.set(name, Store(m, sl.ID, arr))
	default:
		v, ok := st.cells[sl.Cell.id]
		if !ok {
			v = ZeroV(sl.Cell.typ)
		}
		old, ok := navGet(v, sl.Path).(ArrV)
		if !ok {
			return
		}
		st.cells[sl.Cell.id] = navSet(v, sl.Path, ArrV{arr, old.N, old.Elem})
	}
}

func (ex *Exec) elemLoad(st *State, sl SliceV, idx *Term) Value {
	at := BVAdd(sl.Off, idx)
	k := 0
	v := mkValue(sl.Elem, func(sort, hint string) *Term {
		arr := ex.sliceArr(st, sl, k, sort)
		k++
		return SelectA(arr, at)
	}, "")
	return v
}

func (ex *Exec) elemStore(st *State, sl SliceV, idx *Term, v Value) {
	at := BVAdd(sl.Off, idx)
	tmpl := ZeroV(sl.Elem)
	v = adaptTo(tmpl, v)
	if tmpl.shape() != v.shape() {
		ex.note("element of shape %s stored into slice of %s was havoc'd", v.shape(), tmpl.shape())
		v = FreshV(sl.Elem, "unrep")
	}
	for k, c := range v.comps() {
		arr := ex.sliceArr(st, sl, k, c.sort)
		ex.setSliceArr(st, sl, k, Store(arr, at, c))
	}
}

// ---------------------------------------------------------------- allocation

func (ex *Exec) freshRef(st *State, pc *Term, hint string) *Term {
	r := Fresh(hint, SRef)
	MarkFresh(r)
	al := st.get("alloc", SArr(SRef, SBool))
	ex.assume(pc, And(Neq(r, RefNil()), Not(Select(al, r))))
	st.set("alloc", Store(al, r, True))
	return r
}

func (ex *Exec) allocObj(st *State, t types.Type, pc *Term, hint string) PtrV {
	r := ex.freshRef(st, pc, "new."+hint)
	p := PtrV{Kind: PHeap, Ref: r, Root: t}
	st.heapStore(t, nil, r, ZeroV(t))
	return p
}

func (ex *Exec) allocSlice(st *State, elem types.Type, ln, cp *Term, pc *Term, hint string) SliceV {
	id := ex.freshRef(st, pc, "arr."+hint)
	sl := SliceV{St: StDyn, ID: id, Off: BV(0, 64), Len: ln, Cap: cp, Elem: elem}
	for k, c := range ZeroV(elem).comps() {
		ex.setSliceArr(st, sl, k, ConstArr(SArr(SBV(64), c.sort), c))
	}
	return sl
}

// ---------------------------------------------------------------- instructions

func (fr *Frame) execInstr(ins ssa.Instruction, pc *Term, st *State) (*Term, *State, *Term) {
	ex := fr.ex
	switch x := ins.(type) {
	case *ssa.DebugRef:
	case *ssa.Alloc:
		t := x.Type().(*types.Pointer).Elem()
		if x.Heap && isHeapObjectType(t) {
			fr.regs[x] = ex.allocObj(st, t, pc, x.Comment)
		} else if at, isArr := t.Underlying().(*types.Array); isArr && x.Heap && x.Comment == "makeslice" && isScalarElem(at.Elem()) {
			// make([]T, const): the backing array of a slice
			n := BV(uint64(at.Len()), 64)
			sl := ex.allocSlice(st, at.Elem(), n, n, pc, "make")
			fr.regs[x] = PtrV{Kind: PDyn, Ref: sl.ID, Root: t}
		} else {
			c := ex.newCell(x.Comment, t)
			fr.cells[x] = c
			st.cells[c.id] = ZeroV(t)
			fr.regs[x] = PtrV{Kind: PLocal, Cell: c}
		}
	case *ssa.Store:
		ex.store(st, fr.val(x.Addr), fr.val(x.Val), pc, posOf(x))
	case *ssa.UnOp:
		fr.regs[x] = fr.unop(x, pc, st)
	case *ssa.BinOp:
		fr.regs[x] = ex.binop(x.Op, fr.val(x.X), fr.val(x.Y), x.X.Type(), x.Y.Type(), pc, posOf(x), exprText(ex, x))
	case *ssa.FieldAddr:
		p := fr.val(x.X)
		fr.regs[x] = ex.fieldAddr(p, x.Field, pc, posOf(x))
	case *ssa.Field:
		v := fr.val(x.X)
		switch s := v.(type) {
		case StructV:
			fr.regs[x] = s.F[x.Field]
		default:
			fr.regs[x] = FreshV(x.Type(), "field")
		}
	case *ssa.IndexAddr:
		fr.regs[x] = fr.indexAddr(x, pc, st)
	case *ssa.Index:
		fr.regs[x] = fr.index(x, pc, st)
	case *ssa.Slice:
		fr.regs[x] = fr.slice(x, pc, st)
	case *ssa.MakeSlice:
		ln := fr.val(x.Len).(IntV).T
		cp := fr.val(x.Cap).(IntV).T
		ln, cp = SignExtTo64(ln, x.Len.Type()), SignExtTo64(cp, x.Cap.Type())
		ex.oblige("makeslice", exprText(ex, x), posOf(x), pc, And(BVSle(BV(0, 64), ln), BVSle(ln, cp)), "make: 0 <= len <= cap")
		fr.regs[x] = ex.allocSlice(st, x.Type().Underlying().(*types.Slice).Elem(), ln, cp, pc, "make")
	case *ssa.MakeChan:
		r := ex.freshRef(st, pc, "chan")
		cl := st.get("chclosed", SArr(SRef, SBool))
		st.set("chclosed", Store(cl, r, False))
		cp := st.get("chcap", SArr(SRef, SBV(64)))
		st.set("chcap", Store(cp, r, SignExtTo64(fr.val(x.Size).(IntV).T, x.Size.Type())))
		st.set("chplain", Store(st.get("chplain", SArr(SRef, SBV(64))), r, BV(0, 64)))
		fr.regs[x] = ChanV{r}
	case *ssa.MakeMap:
		r := ex.freshRef(st, pc, "map")
		fr.regs[x] = MapV{r}
		ex.mapInit(st, x.Type(), r)
	case *ssa.MakeInterface:
		fr.regs[x] = ex.makeIface(fr.val(x.X), x.X.Type())
	case *ssa.MakeClosure:
		b := make([]Value, len(x.Bindings))
		for i, bv := range x.Bindings {
			b[i] = fr.val(bv)
		}
		fr.regs[x] = FuncV{Fn: x.Fn.(*ssa.Function), Bind: b}
	case *ssa.ChangeType:
		fr.regs[x] = ex.changeType(fr.val(x.X), x.X.Type(), x.Type())
	case *ssa.ChangeInterface:
		fr.regs[x] = fr.val(x.X)
	case *ssa.Convert:
		fr.regs[x] = ex.convert(fr.val(x.X), x.X.Type(), x.Type(), pc, st)
	case *ssa.SliceToArrayPointer:
		fr.regs[x] = FreshV(x.Type(), "s2a")
		ex.note("slice-to-array-pointer conversion havoc'd in %s", fr.fn.Name())
	case *ssa.TypeAssert:
		fr.regs[x] = fr.typeAssert(x, pc)
	case *ssa.Extract:
		t := fr.val(x.Tuple)
		switch tv := t.(type) {
		case TupleV:
			fr.regs[x] = tv.E[x.Index]
		default:
			fr.regs[x] = FreshV(x.Type(), "extract")
		}
	case *ssa.Phi:
		// with state merging a phi selects by the edge taken; naive form only
		// produces them for && and ||
		fr.regs[x] = fr.phi(x, pc)
	case *ssa.Lookup:
		fr.regs[x] = fr.lookup(x, pc, st)
	case *ssa.MapUpdate:
		fr.mapUpdate(x, pc, st)
	case *ssa.Select:
		fr.regs[x] = fr.selectInstr(x, pc, st)
	case *ssa.Send:
		fr.st = st
		fr.plainChanOp(x.Chan, true, x.Pos(), pc)
		fr.chanSend(fr.val(x.Chan), fr.val(x.X), x.Chan, pc, st, posOf(x))
	case *ssa.Range:
		fr.regs[x] = OpaqueV{Fresh("range", SBV(64))}
	case *ssa.Next:
		fr.regs[x] = FreshV(x.Type(), "next")
		ex.note("range over map/string havoc'd in %s", fr.fn.Name())
	case *ssa.Go:
		ex.goStmt(fr, x, pc, st)
	case *ssa.Defer:
		d := deferEntry{call: &x.Call, guard: pc, pos: posOf(x)}
		if !x.Call.IsInvoke() {
			if _, isB := x.Call.Value.(*ssa.Builtin); !isB {
				d.fnv = fr.val(x.Call.Value)
			}
		} else {
			d.fnv = fr.val(x.Call.Value)
		}
		for _, a := range x.Call.Args {
			d.args = append(d.args, fr.val(a))
		}
		fr.defers = append(fr.defers, d)
	case *ssa.RunDefers:
		for i := len(fr.defers) - 1; i >= 0; i-- {
			d := fr.defers[i]
			if And(pc, d.guard) == False {
				continue
			}
			if Implies(pc, d.guard) == True || d.guard == pc {
				r := fr.doCall(d.call, d.fnv, d.args, pc, st, d.pos, nil)
				st = r.st
				continue
			}
			s2 := st.clone()
			r := fr.doCall(d.call, d.fnv, d.args, And(pc, d.guard), s2, d.pos, nil)
			st = MergeStates([]*Term{d.guard, Not(d.guard)}, []*State{r.st, st})
		}
	case *ssa.Call:
		var fnv Value
		if _, isB := x.Call.Value.(*ssa.Builtin); !isB {
			fnv = fr.val(x.Call.Value)
		}
		args := make([]Value, len(x.Call.Args))
		for i, a := range x.Call.Args {
			args[i] = fr.val(a)
		}
		r := fr.doCall(&x.Call, fnv, args, pc, st, posOf(x), x)
		st = r.st
		if r.val == nil {
			r.val = TupleV{}
		}
		fr.regs[x] = r.val
		if r.pc != nil {
			pc = r.pc
		}
	default:
		panic(fmt.Sprintf("unsupported instruction %T in %s", ins, fr.fn))
	}
	return pc, st, nil
}

func isHeapObjectType(t types.Type) bool {
	t = types.Unalias(t)
	switch t.Underlying().(type) {
	case *types.Struct:
		return true
	}
	return false
}

func SignExtTo64(t *Term, ty types.Type) *Term {
	_, signed, _ := isIntType(ty)
	if signed {
		return SignExt(t, 64)
	}
	return ZeroExt(t, 64)
}

func exprText(ex *Exec, v ssa.Instruction) string {
	p := v.Pos()
	if !p.IsValid() {
		return "?"
	}
	return ex.ctx.sourceAt(p)
}

func (fr *Frame) phi(x *ssa.Phi, pc *Term) Value {
	// The incoming edge conditions are not tracked per predecessor after
	// merging; recover them from the recorded per-edge values.
	b := x.Block()
	var cur Value
	for i := len(x.Edges) - 1; i >= 0; i-- {
		pred := b.Preds[i]
		c, ok := fr.edgeCond[[2]*ssa.BasicBlock{pred, b}]
		if !ok {
			continue
		}
		v := fr.val(x.Edges[i])
		if cur == nil {
			cur = v
		} else {
			cur = mergeSafe(c, v, cur)
		}
	}
	if cur == nil {
		return FreshV(x.Type(), "phi")
	}
	return cur
}

func (fr *Frame) unop(x *ssa.UnOp, pc *Term, st *State) Value {
	ex := fr.ex
	v := fr.val(x.X)
	switch x.Op {
	case token.MUL:
		return ex.load(st, v, x.Type(), pc, posOf(x))
	case token.NOT:
		return BoolV{Not(v.(BoolV).T)}
	case token.SUB:
		switch a := v.(type) {
		case IntV:
			return IntV{BVNeg(a.T)}
		case FloatV:
			return FloatV{App("fp.neg", a.T.sort, a.T)}
		}
	case token.XOR:
		return IntV{BVNotT(v.(IntV).T)}
	case token.ARROW:
		fr.plainChanOp(x.X, false, x.Pos(), pc)
		return fr.chanRecv(v, x, pc, st)
	}
	panic(fmt.Sprintf("unop %s on %T", x.Op, v))
}

func (ex *Exec) fieldAddr(p Value, field int, pc *Term, pos token.Pos) Value {
	switch x := p.(type) {
	case PtrV:
		np := x
		np.Path = appendPath(x.Path, field)
		if x.Kind == PHeap {
			ex.oblige("nil", "field of "+fieldPathName(x.Root, x.Path), pos, pc, Neq(x.Ref, RefNil()), "pointer is not nil")
		}
		return np
	case PoisonV:
		return x
	}
	panic(fmt.Sprintf("fieldAddr on %T", p))
}

func arrayOf(t types.Type) *types.Array {
	if p, ok := t.Underlying().(*types.Pointer); ok {
		if a, ok := p.Elem().Underlying().(*types.Array); ok {
			return a
		}
	}
	if a, ok := t.Underlying().(*types.Array); ok {
		return a
	}
	return nil
}

// sliceOfArrayPtr views *[N]T as a slice designator.
func (ex *Exec) sliceOfArrayPtr(p Value, at *types.Array) (SliceV, bool) {
	n := BV(uint64(at.Len()), 64)
	switch x := p.(type) {
	case PtrV:
		if _, ok := scalarSort(at.Elem()); !ok {
			return SliceV{}, false
		}
		switch x.Kind {
		case PDyn:
			return SliceV{St: StDyn, ID: x.Ref, Off: BV(0, 64), Len: n, Cap: n, Elem: at.Elem()}, true
		case PLocal, PGlobal:
			return SliceV{St: StLocal, Cell: x.Cell, Path: x.Path, Off: BV(0, 64), Len: n, Cap: n, Elem: at.Elem()}, true
		case PHeap:
			if x.Root == nil {
				return SliceV{}, false
			}
			return SliceV{St: StField, ID: x.Ref, Root: x.Root, Path: x.Path, Off: BV(0, 64), Len: n, Cap: n, Elem: at.Elem()}, true
		}
	}
	return SliceV{}, false
}

func (fr *Frame) indexAddr(x *ssa.IndexAddr, pc *Term, st *State) Value {
	ex := fr.ex
	base := fr.val(x.X)
	idx := SignExtTo64(fr.val(x.Index).(IntV).T, x.Index.Type())
	switch b := base.(type) {
	case SliceV:
		ex.oblige("index", exprText(ex, x), posOf(x), pc, BVUlt(idx, b.Len), "index within slice length")
		return ElemPtrV{b, idx}
	case PtrV:
		at := arrayOf(x.X.Type())
		if at == nil {
			break
		}
		ex.oblige("index", exprText(ex, x), posOf(x), pc, BVUlt(idx, BV(uint64(at.Len()), 64)), "index within array length")
		if b.Kind == PHeap {
			ex.oblige("nil", "index "+exprText(ex, x), posOf(x), pc, Neq(b.Ref, RefNil()), "array pointer is not nil")
		}
		if sl, ok := ex.sliceOfArrayPtr(b, at); ok {
			return ElemPtrV{sl, idx}
		}
		if idx.lit {
			np := b
			np.Path = appendPath(b.Path, int(idx.val.Int64()))
			return np
		}
		return PoisonV{"symbolic index into an array of non-scalar elements"}
	case PoisonV:
		return b
	}
	panic(fmt.Sprintf("indexAddr on %T", base))
}

func (fr *Frame) index(x *ssa.Index, pc *Term, st *State) Value {
	ex := fr.ex
	base := fr.val(x.X)
	idx := SignExtTo64(fr.val(x.Index).(IntV).T, x.Index.Type())
	switch b := base.(type) {
	case ArrV:
		ex.oblige("index", exprText(ex, x), posOf(x), pc, BVUlt(idx, BV(uint64(b.N), 64)), "index within array length")
		k := 0
		return mkValue(b.Elem, func(sort, hint string) *Term { k++; return SelectA(b.A, idx) }, "")
	case GoArrV:
		ex.oblige("index", exprText(ex, x), posOf(x), pc, BVUlt(idx, BV(uint64(len(b.E)), 64)), "index within array length")
		if idx.lit && int(idx.val.Int64()) < len(b.E) {
			return b.E[idx.val.Int64()]
		}
		return FreshV(x.Type(), "idx")
	case StringV:
		ex.oblige("index", exprText(ex, x), posOf(x), pc, BVUlt(idx, b.Len), "index within string length")
		return IntV{Fresh("strbyte", SBV(8))}
	}
	return FreshV(x.Type(), "idx")
}

func (fr *Frame) slice(x *ssa.Slice, pc *Term, st *State) Value {
	ex := fr.ex
	base := fr.val(x.X)
	get := func(v ssa.Value) *Term {
		if v == nil {
			return nil
		}
		return SignExtTo64(fr.val(v).(IntV).T, v.Type())
	}
	lo, hi, mx := get(x.Low), get(x.High), get(x.Max)
	var sl SliceV
	switch b := base.(type) {
	case SliceV:
		sl = b
	case StringV:
		if lo == nil {
			lo = BV(0, 64)
		}
		if hi == nil {
			hi = b.Len
		}
		ex.oblige("slice", exprText(ex, x), posOf(x), pc, And(BVUle(lo, hi), BVUle(hi, b.Len)), "slice bounds within string")
		return StringV{Fresh("substr", SBV(64)), BVSub(hi, lo)}
	case PtrV:
		at := arrayOf(x.X.Type())
		if at != nil {
			if s, ok := ex.sliceOfArrayPtr(b, at); ok {
				if b.Kind == PHeap {
					ex.oblige("nil", "slice "+exprText(ex, x), posOf(x), pc, Neq(b.Ref, RefNil()), "array pointer is not nil")
				}
				sl = s
				break
			}
			// array of non-scalars (e.g. varargs): opaque fresh slice of the right length
			n := BV(uint64(at.Len()), 64)
			sl = ex.allocSlice(st, at.Elem(), n, n, pc, "varargs")
			for i := int64(0); i < at.Len() && i < 16; i++ {
				np := b
				np.Path = appendPath(b.Path, int(i))
				ev := ex.load(st, np, at.Elem(), pc, posOf(x))
				ex.elemStore(st, sl, BV(uint64(i), 64), ev)
			}
		} else {
			return FreshV(x.Type(), "slice")
		}
	case PoisonV:
		return FreshV(x.Type(), "slice")
	default:
		panic(fmt.Sprintf("slice of %T", base))
	}
	if lo == nil {
		lo = BV(0, 64)
	}
	if hi == nil {
		hi = sl.Len
	}
	bound := sl.Cap
	if mx != nil {
		ex.oblige("slice", exprText(ex, x), posOf(x), pc, And(BVUle(lo, hi), BVUle(hi, mx), BVUle(mx, sl.Cap)), "slice bounds: low <= high <= max <= cap")
		bound = mx
	} else {
		ex.oblige("slice", exprText(ex, x), posOf(x), pc, And(BVUle(lo, hi), BVUle(hi, sl.Cap)), "slice bounds: low <= high <= cap")
	}
	sl.Off = BVAdd(sl.Off, lo)
	sl.Len = BVSub(hi, lo)
	sl.Cap = BVSub(bound, lo)
	return sl
}

func (ex *Exec) makeIface(v Value, t types.Type) Value {
	tag := ex.typeID(t)
	switch x := v.(type) {
	case PtrV:
		if x.Kind == PHeap && len(x.Path) == 0 {
			return IfaceV{tag, ZeroExt(x.Ref, 64)}
		}
	case IntV:
		return IfaceV{tag, ZeroExt(x.T, 64)}
	case BoolV:
		return IfaceV{tag, Ite(x.T, BV(1, 64), BV(0, 64))}
	case IfaceV:
		return x
	case StringV:
		return IfaceV{tag, x.ID}
	}
	return IfaceV{tag, Fresh("ifacepay", SBV(64))}
}

func (ex *Exec) fromIface(iv IfaceV, t types.Type) Value {
	if w, _, ok := isIntType(t); ok {
		return IntV{Extract(iv.Pay, w-1, 0)}
	}
	switch u := t.Underlying().(type) {
	case *types.Pointer:
		return PtrV{Kind: PHeap, Ref: Extract(iv.Pay, 31, 0), Root: u.Elem()}
	case *types.Basic:
		if u.Kind() == types.Bool {
			return BoolV{Neq(iv.Pay, BV(0, 64))}
		}
	case *types.Interface:
		return iv
	}
	return FreshV(t, "unbox")
}

func (fr *Frame) typeAssert(x *ssa.TypeAssert, pc *Term) Value {
	ex := fr.ex
	v := fr.val(x.X)
	iv, ok := v.(IfaceV)
	if !ok {
		return FreshV(x.Type(), "tassert")
	}
	var okT *Term
	var res Value
	if types.IsInterface(x.AssertedType) {
		okT = And(Neq(iv.Tag, BV(0, 16)), ex.implementsTerm(iv, x.AssertedType))
		res = iv
	} else {
		okT = Eq(iv.Tag, ex.typeID(x.AssertedType))
		res = ex.fromIface(iv, x.AssertedType)
	}
	if x.CommaOk {
		// on failure the value is the zero value
		z := ZeroV(x.AssertedType)
		return TupleV{[]Value{mergeSafe(okT, res, z), BoolV{okT}}}
	}
	ex.oblige("assert-type", exprText(ex, x), posOf(x), pc, okT, "type assertion holds")
	return res
}

// implementsTerm: whether the dynamic type of iv implements iface. Known
// concrete types are decided statically; unknown tags give a fresh boolean.
func (ex *Exec) implementsTerm(iv IfaceV, iface types.Type) *Term {
	if iv.Tag.lit {
		id := int(iv.Tag.val.Int64())
		if t, ok := ex.typeByID[id]; ok {
			return Bool(types.Implements(t, iface.Underlying().(*types.Interface)))
		}
	}
	return Fresh("implements", SBool)
}

func (ex *Exec) changeType(v Value, from, to types.Type) Value {
	// named <-> underlying: same representation, except special structs
	if isSpecialStruct(from) != isSpecialStruct(to) {
		return FreshV(to, "changetype")
	}
	if p, ok := v.(PtrV); ok && p.Kind == PHeap && len(p.Path) == 0 {
		if tp, ok := to.Underlying().(*types.Pointer); ok {
			p.Root = tp.Elem()
			return p
		}
	}
	if s, ok := v.(StructV); ok {
		s.Typ = to
		return s
	}
	return v
}

func (ex *Exec) convert(v Value, from, to types.Type, pc *Term, st *State) Value {
	fw, fs, fi := isIntType(from)
	tw, ts, ti := isIntType(to)
	switch {
	case fi && ti:
		t := v.(IntV).T
		if tw <= fw {
			return IntV{Extract(t, tw-1, 0)}
		}
		if fs {
			return IntV{SignExt(t, tw)}
		}
		return IntV{ZeroExt(t, tw)}
	case fi && isFloat(to):
		t := v.(IntV).T
		sort, eb, sb := floatSort(to)
		if fs {
			return FloatV{App(fmt.Sprintf("(_ to_fp %d %d)", eb, sb), sort, rne(), t)}
		}
		return FloatV{App(fmt.Sprintf("(_ to_fp_unsigned %d %d)", eb, sb), sort, rne(), t)}
	case isFloat(from) && ti:
		t := v.(FloatV).T
		_ = ts
		if ts {
			return IntV{App(fmt.Sprintf("(_ fp.to_sbv %d)", tw), SBV(tw), rtz(), t)}
		}
		return IntV{App(fmt.Sprintf("(_ fp.to_ubv %d)", tw), SBV(tw), rtz(), t)}
	case isFloat(from) && isFloat(to):
		t := v.(FloatV).T
		sort, eb, sb := floatSort(to)
		if t.sort == sort {
			return v
		}
		return FloatV{App(fmt.Sprintf("(_ to_fp %d %d)", eb, sb), sort, rne(), t)}
	}
	// string <-> []byte etc.
	switch tu := to.Underlying().(type) {
	case *types.Slice:
		if s, ok := v.(StringV); ok {
			sl := ex.allocSlice(st, tu.Elem(), s.Len, s.Len, pc, "str2bytes")
			// content determined by the string identity
			DeclareFun("strbytes", []string{SBV(64)}, SByteArr)
			if _, isByte := scalarSort(tu.Elem()); isByte && bvWidthOfElem(tu.Elem()) == 8 {
				ex.setSliceArr(st, sl, 0, App("strbytes", SByteArr, s.ID))
			}
			return sl
		}
	case *types.Basic:
		if tu.Info()&types.IsString != 0 {
			if sl, ok := v.(SliceV); ok {
				return StringV{Fresh("bytes2str", SBV(64)), sl.Len}
			}
			if _, ok := v.(IntV); ok {
				return StringV{Fresh("rune2str", SBV(64)), Fresh("runelen", SBV(64))}
			}
		}
		if tu.Kind() == types.UnsafePointer {
			return OpaqueV{Fresh("unsafe", SBV(64))}
		}
	case *types.Pointer:
		if _, ok := v.(OpaqueV); ok {
			return FreshV(to, "fromunsafe")
		}
	}
	if ZeroV(from).shape() == ZeroV(to).shape() {
		return v
	}
	ex.note("conversion %s -> %s havoc'd", typeKey(from), typeKey(to))
	return FreshV(to, "convert")
}

func bvWidthOfElem(t types.Type) int {
	w, _, _ := isIntType(t)
	return w
}

func isFloat(t types.Type) bool {
	b, ok := t.Underlying().(*types.Basic)
	return ok && b.Info()&types.IsFloat != 0
}
func floatSort(t types.Type) (string, int, int) {
	if t.Underlying().(*types.Basic).Kind() == types.Float32 {
		return SF32, 8, 24
	}
	return SF64, 11, 53
}
func rne() *Term { return App("RNE", "RoundingMode") }
func rtz() *Term { return App("RTZ", "RoundingMode") }

func (ex *Exec) binop(op token.Token, a, b Value, ta, tb types.Type, pc *Term, pos token.Pos, text string) Value {
	switch x := a.(type) {
	case IntV:
		y, ok := b.(IntV)
		if !ok {
			break
		}
		_, signed, _ := isIntType(ta)
		X, Y := x.T, y.T
		if op == token.SHL || op == token.SHR {
			// shift count may have another width; Go: count >= width gives 0 (or sign fill)
			_, ysigned, _ := isIntType(tb)
			if ysigned {
				ex.oblige("shift", text, pos, pc, BVSle(BV(0, Y.width), Y), "shift count is not negative")
			}
			var Yw *Term
			if Y.width > X.width {
				big := BVUle(BV(uint64(X.width), Y.width), Y)
				Yw = Ite(big, BV(uint64(X.width), X.width), Extract(Y, X.width-1, 0))
			} else {
				Yw = ZeroExt(Y, X.width)
			}
			if op == token.SHL {
				return IntV{BVShl(X, Yw)}
			}
			if signed {
				return IntV{BVAshr(X, Yw)}
			}
			return IntV{BVLshr(X, Yw)}
		}
		if X.sort != Y.sort {
			panic(fmt.Sprintf("binop %s width mismatch at %s", op, text))
		}
		switch op {
		case token.ADD:
			return IntV{BVAdd(X, Y)}
		case token.SUB:
			return IntV{BVSub(X, Y)}
		case token.MUL:
			return IntV{BVMul(X, Y)}
		case token.QUO:
			ex.oblige("div", text, pos, pc, Neq(Y, BV(0, Y.width)), "divisor is not zero")
			if signed {
				return IntV{BVSDiv(X, Y)}
			}
			return IntV{BVUDiv(X, Y)}
		case token.REM:
			ex.oblige("div", text, pos, pc, Neq(Y, BV(0, Y.width)), "divisor is not zero")
			if signed {
				return IntV{BVSRem(X, Y)}
			}
			return IntV{BVURem(X, Y)}
		case token.AND:
			return IntV{BVAndT(X, Y)}
		case token.OR:
			return IntV{BVOrT(X, Y)}
		case token.XOR:
			return IntV{BVXorT(X, Y)}
		case token.AND_NOT:
			return IntV{BVAndT(X, BVNotT(Y))}
		case token.EQL:
			return BoolV{Eq(X, Y)}
		case token.NEQ:
			return BoolV{Neq(X, Y)}
		case token.LSS:
			if signed {
				return BoolV{BVSlt(X, Y)}
			}
			return BoolV{BVUlt(X, Y)}
		case token.LEQ:
			if signed {
				return BoolV{BVSle(X, Y)}
			}
			return BoolV{BVUle(X, Y)}
		case token.GTR:
			if signed {
				return BoolV{BVSlt(Y, X)}
			}
			return BoolV{BVUlt(Y, X)}
		case token.GEQ:
			if signed {
				return BoolV{BVSle(Y, X)}
			}
			return BoolV{BVUle(Y, X)}
		}
	case BoolV:
		y, ok := b.(BoolV)
		if !ok {
			break
		}
		switch op {
		case token.EQL:
			return BoolV{Eq(x.T, y.T)}
		case token.NEQ:
			return BoolV{Neq(x.T, y.T)}
		case token.LAND:
			return BoolV{And(x.T, y.T)}
		case token.LOR:
			return BoolV{Or(x.T, y.T)}
		}
	case FloatV:
		y, ok := b.(FloatV)
		if !ok {
			break
		}
		switch op {
		case token.ADD:
			return FloatV{App("fp.add", x.T.sort, rne(), x.T, y.T)}
		case token.SUB:
			return FloatV{App("fp.sub", x.T.sort, rne(), x.T, y.T)}
		case token.MUL:
			return FloatV{App("fp.mul", x.T.sort, rne(), x.T, y.T)}
		case token.QUO:
			return FloatV{App("fp.div", x.T.sort, rne(), x.T, y.T)}
		case token.EQL:
			return BoolV{App("fp.eq", SBool, x.T, y.T)}
		case token.NEQ:
			return BoolV{Not(App("fp.eq", SBool, x.T, y.T))}
		case token.LSS:
			return BoolV{App("fp.lt", SBool, x.T, y.T)}
		case token.LEQ:
			return BoolV{App("fp.leq", SBool, x.T, y.T)}
		case token.GTR:
			return BoolV{App("fp.gt", SBool, x.T, y.T)}
		case token.GEQ:
			return BoolV{App("fp.geq", SBool, x.T, y.T)}
		}
	case TimeV:
		if y, ok := b.(TimeV); ok {
			switch op {
			case token.EQL:
				return BoolV{Eq(x.T, y.T)}
			case token.NEQ:
				return BoolV{Neq(x.T, y.T)}
			}
		}
	case StringV:
		if y, ok := b.(StringV); ok {
			switch op {
			case token.EQL:
				return BoolV{ex.strEq(x, y)}
			case token.NEQ:
				return BoolV{Not(ex.strEq(x, y))}
			case token.ADD:
				return StringV{Fresh("strcat", SBV(64)), BVAdd(x.Len, y.Len)}
			default:
				return BoolV{Fresh("strcmp", SBool)}
			}
		}
	}
	// generic (in)equality on references, interfaces, slices vs nil ...
	if op == token.EQL || op == token.NEQ {
		var e *Term
		func() {
			defer func() {
				if r := recover(); r != nil {
					if _, ok := r.(shapeMismatch); ok {
						e = ex.looseEq(a, b)
						return
					}
					panic(r)
				}
			}()
			e = ex.looseEq(a, b)
		}()
		if op == token.NEQ {
			e = Not(e)
		}
		return BoolV{e}
	}
	panic(fmt.Sprintf("binop %s on %T,%T at %s", op, a, b, text))
}

func (ex *Exec) strEq(x, y StringV) *Term {
	if x.ID.lit && y.ID.lit {
		return Bool(x.ID == y.ID)
	}
	return Eq(x.ID, y.ID)
}

// looseEq: Go equality for reference-like values.
func (ex *Exec) looseEq(a, b Value) *Term {
	switch x := a.(type) {
	case SliceV:
		// only comparison with nil is legal
		if y, ok := b.(SliceV); ok {
			if y.St == StDyn && y.ID.lit {
				return sliceIsNil(x)
			}
			if x.St == StDyn && x.ID.lit {
				return sliceIsNil(y)
			}
		}
	case IfaceV:
		if y, ok := b.(IfaceV); ok {
			return And(Eq(x.Tag, y.Tag), Or(Eq(x.Tag, BV(0, 16)), Eq(x.Pay, y.Pay)))
		}
	case MapV:
		if y, ok := b.(MapV); ok {
			return Eq(x.Ref, y.Ref)
		}
	case ChanV:
		if y, ok := b.(ChanV); ok {
			return Eq(x.Ref, y.Ref)
		}
	case FuncV:
		if y, ok := b.(FuncV); ok {
			if x.Fn != nil && y.Fn == nil && y.ID.lit {
				return False // a known function is never nil
			}
			if y.Fn != nil && x.Fn == nil && x.ID.lit {
				return False
			}
		}
	case ElemPtrV:
		return Fresh("ptreq", SBool)
	}
	return EqV(a, b)
}

func sliceIsNil(s SliceV) *Term {
	switch s.St {
	case StDyn:
		return Eq(s.ID, RefNil())
	}
	return False
}

// escapeSlice: a slice of a local array or of an array-typed field that is
// stored into the heap is represented by a fresh dynamic array holding a copy
// of the current content (later writes through either alias are not reflected
// in the other: recorded as an abstraction).
func (ex *Exec) escapeSlice(st *State, v Value, pc *Term) Value {
	sl, ok := v.(SliceV)
	if !ok || sl.St == StDyn {
		return v
	}
	es, ok := scalarSort(sl.Elem)
	if !ok {
		return v
	}
	arr := ex.sliceArr(st, sl, 0, es)
	id := ex.freshRef(st, pc, "escaped")
	out := SliceV{St: StDyn, ID: id, Off: sl.Off, Len: sl.Len, Cap: sl.Cap, Elem: sl.Elem}
	ex.setSliceArr(st, out, 0, arr)
	ex.note("a slice of a local/field array stored in the heap is represented by a copy (aliasing between the two not modelled)")
	return out
}

func isScalarElem(t types.Type) bool { _, ok := scalarSort(t); return ok }

// plainChanOp: shutdown discipline (C12) for a channel operation outside a
// select. Such an operation cannot be woken by Close unless it is a receive
// from a close-only channel (quit, ctx.Done) or from a timer.
func (fr *Frame) plainChanOp(ch ssa.Value, send bool, pos token.Pos, pc *Term) {
	ex := fr.ex
	if !contains(ex.curProps, "C12") || !(fr.isRoot || fr.fn == ex.sweepFn) {
		return
	}
	ok := False
	if !send && (ex.ctx.chanDisc(ch) == "closeonly" || isCtxDone(ch) || isTimerChan(ch)) {
		ok = True
	}
	if send {
		// a send cannot block while the channel has a free buffer slot: the
		// first plain send of this activation on a channel with capacity >= 1
		if cv, isCh := fr.val(ch).(ChanV); isCh && fr.st != nil {
			cnt := fr.st.get("chplain", SArr(SRef, SBV(64)))
			ok = BVSlt(Select(cnt, cv.Ref), Select(fr.st.get("chcap", SArr(SRef, SBV(64))), cv.Ref))
			fr.st.set("chplain", Store(cnt, cv.Ref, BVAdd(Select(cnt, cv.Ref), BV(1, 64))))
		}
	}
	saved := ex.clauseProps
	ex.clauseProps = []string{"C12"}
	what := "receive"
	if send {
		what = "send"
	}
	ex.oblige("select-quit", "plain "+what+" "+exprAtPos(ex, pos), pos, pc, ok,
		"a blocking channel "+what+" outside a select has no arm on a quit channel closed by Close")
	ex.clauseProps = saved
}

// isTimerChan: the channel of a time.Timer / time.After (fires by itself).
func isTimerChan(v ssa.Value) bool {
	switch x := v.(type) {
	case *ssa.Call:
		if f := x.Call.StaticCallee(); f != nil && f.Pkg != nil && f.Pkg.Pkg.Path() == "time" && f.Name() == "After" {
			return true
		}
	case *ssa.UnOp:
		if fa, ok := x.X.(*ssa.FieldAddr); ok {
			if pt, ok := fa.X.Type().Underlying().(*types.Pointer); ok {
				if n, ok := pt.Elem().(*types.Named); ok && n.Obj().Pkg() != nil && n.Obj().Pkg().Path() == "time" {
					return true
				}
			}
		}
	}
	return false
}
