package main

// Assumed contracts of standard-library functions (the "speclib"). Each model
// is an assumption, listed in the evidence of every check that used it.

import (
	"fmt"
	"go/token"
	"go/types"

	"golang.org/x/tools/go/ssa"
)

type stdModel func(fr *Frame, fn *ssa.Function, args []Value, pc *Term, st *State, pos token.Pos, resT types.Type) callResult

var stdModels = map[string]stdModel{}

func used(fr *Frame, name string) { fr.ex.ctx.usedModels[name]++ }

func init() {

	noop := func(name string) stdModel {
		return func(fr *Frame, fn *ssa.Function, args []Value, pc *Term, st *State, pos token.Pos, resT types.Type) callResult {
			used(fr, name)
			return callResult{val: fr.ex.freshResult(resT, "ret", st, pc), st: st}
		}
	}
	// ---- sync
	lockOp := func(name string, want, set uint64, acquire bool) stdModel {
		return func(fr *Frame, fn *ssa.Function, args []Value, pc *Term, st *State, pos token.Pos, resT types.Type) callResult {
			used(fr, name)
			ex := fr.ex
			lv, ok := ex.load(st, args[0], nil, pc, pos).(LockV)
			if !ok {
				return callResult{val: TupleV{}, st: st}
			}
			if acquire {
				ex.oblige("lock", "acquire "+ptrName(args[0]), pos, pc, Eq(lv.Held, BV(0, 8)), "mutex is not already held by this thread (self-deadlock)")
				ex.lockOrder(st, args[0], pc, pos)
				ex.onAcquire(fr, st, args[0], pc)
			} else {
				ex.oblige("lock", "release "+ptrName(args[0]), pos, pc, Eq(lv.Held, BV(want, 8)), "mutex is held in the released mode")
				ex.lockRelease(st, args[0])
			}
			ex.store(st, args[0], LockV{BV(set, 8)}, pc, pos)
			return callResult{val: TupleV{}, st: st}
		}
	}
	stdModels["(*sync.Mutex).Lock"] = lockOp("sync.Mutex.Lock", 0, 1, true)
	stdModels["(*sync.Mutex).Unlock"] = lockOp("sync.Mutex.Unlock", 1, 0, false)
	stdModels["(*sync.RWMutex).Lock"] = lockOp("sync.RWMutex.Lock", 0, 1, true)
	stdModels["(*sync.RWMutex).Unlock"] = lockOp("sync.RWMutex.Unlock", 1, 0, false)
	stdModels["(*sync.RWMutex).RLock"] = lockOp("sync.RWMutex.RLock", 0, 2, true)
	stdModels["(*sync.RWMutex).RUnlock"] = lockOp("sync.RWMutex.RUnlock", 2, 0, false)
	stdModels["(*sync.WaitGroup).Add"] = func(fr *Frame, fn *ssa.Function, args []Value, pc *Term, st *State, pos token.Pos, resT types.Type) callResult {
		used(fr, "sync.WaitGroup.Add")
		fr.ex.eventPtr(st, "wg.add", args[0], pc)
		return callResult{val: TupleV{}, st: st}
	}
	stdModels["(*sync.WaitGroup).Done"] = func(fr *Frame, fn *ssa.Function, args []Value, pc *Term, st *State, pos token.Pos, resT types.Type) callResult {
		used(fr, "sync.WaitGroup.Done")
		fr.ex.eventPtr(st, "wg.done", args[0], pc)
		return callResult{val: TupleV{}, st: st}
	}
	stdModels["(*sync.WaitGroup).Wait"] = func(fr *Frame, fn *ssa.Function, args []Value, pc *Term, st *State, pos token.Pos, resT types.Type) callResult {
		used(fr, "sync.WaitGroup.Wait")
		fr.ex.eventPtr(st, "wg.wait", args[0], pc)
		fr.ex.waitHolding(st, args[0], pc, pos)
		return callResult{val: TupleV{}, st: st}
	}
	stdModels["(*sync.Once).Do"] = func(fr *Frame, fn *ssa.Function, args []Value, pc *Term, st *State, pos token.Pos, resT types.Type) callResult {
		used(fr, "sync.Once.Do")
		ex := fr.ex
		ov, ok := ex.load(st, args[0], nil, pc, pos).(OnceV)
		f, fok := args[1].(FuncV)
		if !ok || !fok || f.Fn == nil {
			return fr.unknownCall("sync.Once.Do", args, pc, st, resT, pos)
		}
		run := Not(ov.Done)
		s2 := st.clone()
		ex.store(s2, args[0], OnceV{True}, And(pc, run), pos)
		r := fr.callStatic(f.Fn, nil, f.Bind, And(pc, run), s2, pos, types.NewTuple())
		out := MergeStates([]*Term{run, Not(run)}, []*State{r.st, st})
		return callResult{val: TupleV{}, st: out}
	}
	// ---- atomic
	stdModels["sync/atomic.StoreUint32"] = func(fr *Frame, fn *ssa.Function, args []Value, pc *Term, st *State, pos token.Pos, resT types.Type) callResult {
		used(fr, "atomic.StoreUint32")
		fr.ex.atomicAccess = true
		fr.ex.store(st, args[0], args[1], pc, pos)
		fr.ex.atomicAccess = false
		return callResult{val: TupleV{}, st: st}
	}
	stdModels["sync/atomic.LoadUint32"] = func(fr *Frame, fn *ssa.Function, args []Value, pc *Term, st *State, pos token.Pos, resT types.Type) callResult {
		used(fr, "atomic.LoadUint32")
		fr.ex.atomicAccess = true
		v := fr.ex.load(st, args[0], resT, pc, pos)
		fr.ex.atomicAccess = false
		return callResult{val: v, st: st}
	}
	// ---- time: time.Time is an int64 instant on a monotone clock
	stdModels["time.Now"] = func(fr *Frame, fn *ssa.Function, args []Value, pc *Term, st *State, pos token.Pos, resT types.Type) callResult {
		used(fr, "time.Now (monotone clock)")
		return callResult{val: TimeV{fr.ex.now(st, pc)}, st: st}
	}
	stdModels["time.Since"] = func(fr *Frame, fn *ssa.Function, args []Value, pc *Term, st *State, pos token.Pos, resT types.Type) callResult {
		used(fr, "time.Since")
		t := fr.ex.now(st, pc)
		return callResult{val: IntV{BVSub(t, args[0].(TimeV).T)}, st: st}
	}
	stdModels["time.Until"] = func(fr *Frame, fn *ssa.Function, args []Value, pc *Term, st *State, pos token.Pos, resT types.Type) callResult {
		used(fr, "time.Until")
		t := fr.ex.now(st, pc)
		return callResult{val: IntV{BVSub(args[0].(TimeV).T, t)}, st: st}
	}
	stdModels["(time.Time).Sub"] = func(fr *Frame, fn *ssa.Function, args []Value, pc *Term, st *State, pos token.Pos, resT types.Type) callResult {
		used(fr, "time.Time.Sub")
		return callResult{val: IntV{BVSub(args[0].(TimeV).T, args[1].(TimeV).T)}, st: st}
	}
	stdModels["(time.Time).Add"] = func(fr *Frame, fn *ssa.Function, args []Value, pc *Term, st *State, pos token.Pos, resT types.Type) callResult {
		used(fr, "time.Time.Add")
		return callResult{val: TimeV{BVAdd(args[0].(TimeV).T, args[1].(IntV).T)}, st: st}
	}
	stdModels["(time.Time).IsZero"] = func(fr *Frame, fn *ssa.Function, args []Value, pc *Term, st *State, pos token.Pos, resT types.Type) callResult {
		used(fr, "time.Time.IsZero")
		return callResult{val: BoolV{Eq(args[0].(TimeV).T, BV(0, 64))}, st: st}
	}
	stdModels["(time.Time).Before"] = func(fr *Frame, fn *ssa.Function, args []Value, pc *Term, st *State, pos token.Pos, resT types.Type) callResult {
		return callResult{val: BoolV{BVSlt(args[0].(TimeV).T, args[1].(TimeV).T)}, st: st}
	}
	stdModels["(time.Time).After"] = func(fr *Frame, fn *ssa.Function, args []Value, pc *Term, st *State, pos token.Pos, resT types.Type) callResult {
		return callResult{val: BoolV{BVSlt(args[1].(TimeV).T, args[0].(TimeV).T)}, st: st}
	}
	newTimerLike := func(name string, t string) stdModel {
		return func(fr *Frame, fn *ssa.Function, args []Value, pc *Term, st *State, pos token.Pos, resT types.Type) callResult {
			used(fr, name)
			ex := fr.ex
			root := resT.(*types.Pointer).Elem()
			p := ex.allocObj(st, root, pc, t)
			// field C: a fresh open channel
			ch := ex.freshRef(st, pc, t+".C")
			if sv, ok := st.heapLoad(root, nil, p.Ref).(StructV); ok {
				for i := range sv.F {
					if _, isCh := sv.F[i].(ChanV); isCh {
						st.heapStore(root, []int{i}, p.Ref, ChanV{ch})
					}
				}
			}
			ex.eventPtr(st, "new."+t, p, pc)
			return callResult{val: p, st: st}
		}
	}
	stdModels["time.NewTimer"] = newTimerLike("time.NewTimer", "timer")
	stdModels["time.NewTicker"] = newTimerLike("time.NewTicker", "ticker")
	stdModels["(*time.Timer).Stop"] = func(fr *Frame, fn *ssa.Function, args []Value, pc *Term, st *State, pos token.Pos, resT types.Type) callResult {
		used(fr, "time.Timer.Stop")
		fr.ex.eventPtr(st, "stop.timer", args[0], pc)
		return callResult{val: BoolV{Fresh("stopped", SBool)}, st: st}
	}
	stdModels["(*time.Ticker).Stop"] = func(fr *Frame, fn *ssa.Function, args []Value, pc *Term, st *State, pos token.Pos, resT types.Type) callResult {
		used(fr, "time.Ticker.Stop")
		fr.ex.eventPtr(st, "stop.ticker", args[0], pc)
		return callResult{val: TupleV{}, st: st}
	}
	stdModels["(*time.Ticker).Reset"] = noop("time.Ticker.Reset")
	stdModels["(*time.Timer).Reset"] = noop("time.Timer.Reset")
	stdModels["time.After"] = func(fr *Frame, fn *ssa.Function, args []Value, pc *Term, st *State, pos token.Pos, resT types.Type) callResult {
		used(fr, "time.After")
		ch := fr.ex.freshRef(st, pc, "after")
		return callResult{val: ChanV{ch}, st: st}
	}
	// ---- errors / fmt
	newErr := func(name string) stdModel {
		return func(fr *Frame, fn *ssa.Function, args []Value, pc *Term, st *State, pos token.Pos, resT types.Type) callResult {
			used(fr, name)
			return callResult{val: IfaceV{fr.ex.typeID(types.NewPointer(types.Universe.Lookup("error").Type())), Fresh("err", SBV(64))}, st: st}
		}
	}
	stdModels["errors.New"] = newErr("errors.New (non-nil error)")
	stdModels["fmt.Errorf"] = newErr("fmt.Errorf (non-nil error)")
	stdModels["fmt.Sprintf"] = noop("fmt.Sprintf")
	stdModels["fmt.Sprint"] = noop("fmt.Sprint")
	// ---- bytes.Buffer
	stdModels["(*bytes.Buffer).WriteByte"] = func(fr *Frame, fn *ssa.Function, args []Value, pc *Term, st *State, pos token.Pos, resT types.Type) callResult {
		used(fr, "bytes.Buffer.WriteByte (appends one byte, returns nil)")
		ex := fr.ex
		b := ex.loadBuf(st, args[0], pc, pos)
		sl := SliceV{St: StDyn, ID: b.ID, Off: BV(0, 64), Len: b.Len, Cap: b.Len, Elem: types.Typ[types.Uint8]}
		ex.elemStore(st, sl, b.Len, args[1])
		ex.store(st, args[0], BufV{b.ID, BVAdd(b.Len, BV(1, 64))}, pc, pos)
		return callResult{val: ZeroV(resT), st: st}
	}
	stdModels["(*bytes.Buffer).WriteRune"] = func(fr *Frame, fn *ssa.Function, args []Value, pc *Term, st *State, pos token.Pos, resT types.Type) callResult {
		used(fr, "bytes.Buffer.WriteRune (UTF-8: one byte below 0x80, two bytes below 0x800, otherwise 3-4 unspecified bytes)")
		ex := fr.ex
		b := ex.loadBuf(st, args[0], pc, pos)
		r := args[1].(IntV).T // int32
		sl := SliceV{St: StDyn, ID: b.ID, Off: BV(0, 64), Len: b.Len, Cap: b.Len, Elem: types.Typ[types.Uint8]}
		one := And(BVSle(BV(0, 32), r), BVSlt(r, BV(0x80, 32)))
		two := And(BVSle(BV(0x80, 32), r), BVSlt(r, BV(0x800, 32)))
		b0 := Ite(one, Extract(r, 7, 0), Ite(two, BVOrT(BV(0xC0, 8), Extract(BVLshr(r, BV(6, 32)), 7, 0)), Fresh("rune.b0", SBV(8))))
		b1 := Ite(two, BVOrT(BV(0x80, 8), BVAndT(Extract(r, 7, 0), BV(0x3F, 8))), Fresh("rune.b1", SBV(8)))
		n := Ite(one, BV(1, 64), Ite(two, BV(2, 64), Fresh("rune.n", SBV(64))))
		ex.assume(pc, And(BVSle(BV(1, 64), n), BVSle(n, BV(4, 64))))
		ex.elemStore(st, sl, b.Len, IntV{b0})
		ex.elemStore(st, sl, BVAdd(b.Len, BV(1, 64)), IntV{b1})
		ex.elemStore(st, sl, BVAdd(b.Len, BV(2, 64)), IntV{Fresh("rune.b2", SBV(8))})
		ex.elemStore(st, sl, BVAdd(b.Len, BV(3, 64)), IntV{Fresh("rune.b3", SBV(8))})
		ex.store(st, args[0], BufV{b.ID, BVAdd(b.Len, n)}, pc, pos)
		return callResult{val: TupleV{[]Value{IntV{n}, ZeroV(types.Universe.Lookup("error").Type())}}, st: st}
	}
	stdModels["(*bytes.Buffer).Write"] = func(fr *Frame, fn *ssa.Function, args []Value, pc *Term, st *State, pos token.Pos, resT types.Type) callResult {
		used(fr, "bytes.Buffer.Write (appends p, returns len(p), nil)")
		ex := fr.ex
		b := ex.loadBuf(st, args[0], pc, pos)
		p := args[1].(SliceV)
		sl := SliceV{St: StDyn, ID: b.ID, Off: BV(0, 64), Len: b.Len, Cap: b.Len, Elem: types.Typ[types.Uint8]}
		da := ex.sliceArr(st, sl, 0, SBV(8))
		sa := ex.sliceArr(st, p, 0, SBV(8))
		ex.setSliceArr(st, sl, 0, CopyArr(da, b.Len, sa, p.Off, p.Len))
		ex.store(st, args[0], BufV{b.ID, BVAdd(b.Len, p.Len)}, pc, pos)
		return callResult{val: TupleV{[]Value{IntV{p.Len}, ZeroV(types.Universe.Lookup("error").Type())}}, st: st}
	}
	stdModels["(*bytes.Buffer).Bytes"] = func(fr *Frame, fn *ssa.Function, args []Value, pc *Term, st *State, pos token.Pos, resT types.Type) callResult {
		used(fr, "bytes.Buffer.Bytes")
		b := fr.ex.loadBuf(st, args[0], pc, pos)
		return callResult{val: SliceV{St: StDyn, ID: b.ID, Off: BV(0, 64), Len: b.Len, Cap: b.Len, Elem: types.Typ[types.Uint8]}, st: st}
	}
	stdModels["(*bytes.Buffer).Len"] = func(fr *Frame, fn *ssa.Function, args []Value, pc *Term, st *State, pos token.Pos, resT types.Type) callResult {
		used(fr, "bytes.Buffer.Len")
		b := fr.ex.loadBuf(st, args[0], pc, pos)
		return callResult{val: IntV{b.Len}, st: st}
	}
	// Read: empty buffer => (0, io.EOF) unless len(p)==0; else n = min(len(p), Len), bytes moved out of the front.
	stdModels["(*bytes.Buffer).Read"] = func(fr *Frame, fn *ssa.Function, args []Value, pc *Term, st *State, pos token.Pos, resT types.Type) callResult {
		used(fr, "bytes.Buffer.Read (n = min(len(p), Len); empty buffer and len(p)>0 => 0, io.EOF)")
		ex := fr.ex
		b := ex.loadBuf(st, args[0], pc, pos)
		p := args[1].(SliceV)
		n := Ite(BVSlt(p.Len, b.Len), p.Len, b.Len)
		src := SliceV{St: StDyn, ID: b.ID, Off: BV(0, 64), Len: b.Len, Cap: b.Len, Elem: types.Typ[types.Uint8]}
		sa := ex.sliceArr(st, src, 0, SBV(8))
		da := ex.sliceArr(st, p, 0, SBV(8))
		ex.setSliceArr(st, p, 0, CopyArr(da, p.Off, sa, BV(0, 64), n))
		// remaining content shifts to the front (abstracting the read offset);
		// the destination is the array as it is now (p may live in the same array)
		cur := ex.sliceArr(st, src, 0, SBV(8))
		shifted := CopyArr(cur, BV(0, 64), sa, n, BVSub(b.Len, n))
		ex.setSliceArr(st, src, 0, shifted)
		ex.store(st, args[0], BufV{b.ID, BVSub(b.Len, n)}, pc, pos)
		isNil := Or(Neq(b.Len, BV(0, 64)), Eq(p.Len, BV(0, 64)))
		return callResult{val: TupleV{[]Value{IntV{n}, ex.errValue(isNil, "bufread")}}, st: st}
	}
	// ---- encoding/binary
	put := func(name string, width int, bigEndian bool) stdModel {
		return func(fr *Frame, fn *ssa.Function, args []Value, pc *Term, st *State, pos token.Pos, resT types.Type) callResult {
			used(fr, name)
			ex := fr.ex
			sl := args[1].(SliceV)
			v := args[2].(IntV).T
			nb := width / 8
			ex.oblige("index", name+" buffer", pos, pc, BVUle(BV(uint64(nb), 64), sl.Len), "buffer holds the encoded integer")
			for i := 0; i < nb; i++ {
				var byt *Term
				if bigEndian {
					byt = Extract(v, width-8*i-1, width-8*i-8)
				} else {
					byt = Extract(v, 8*i+7, 8*i)
				}
				ex.elemStore(st, sl, BV(uint64(i), 64), IntV{byt})
			}
			return callResult{val: TupleV{}, st: st}
		}
	}
	get := func(name string, width int, bigEndian bool) stdModel {
		return func(fr *Frame, fn *ssa.Function, args []Value, pc *Term, st *State, pos token.Pos, resT types.Type) callResult {
			used(fr, name)
			ex := fr.ex
			sl := args[1].(SliceV)
			nb := width / 8
			ex.oblige("index", name+" buffer", pos, pc, BVUle(BV(uint64(nb), 64), sl.Len), "buffer holds the encoded integer")
			var acc *Term
			for i := 0; i < nb; i++ {
				byt := ex.elemLoad(st, sl, BV(uint64(i), 64)).(IntV).T
				if acc == nil {
					acc = byt
				} else if bigEndian {
					acc = Concat(acc, byt)
				} else {
					acc = Concat(byt, acc)
				}
			}
			return callResult{val: IntV{acc}, st: st}
		}
	}
	for _, w := range []int{16, 32, 64} {
		stdModels[fmt.Sprintf("(encoding/binary.bigEndian).PutUint%d", w)] = put(fmt.Sprintf("binary.BigEndian.PutUint%d", w), w, true)
		stdModels[fmt.Sprintf("(encoding/binary.littleEndian).PutUint%d", w)] = put(fmt.Sprintf("binary.LittleEndian.PutUint%d", w), w, false)
		stdModels[fmt.Sprintf("(encoding/binary.bigEndian).Uint%d", w)] = get(fmt.Sprintf("binary.BigEndian.Uint%d", w), w, true)
		stdModels[fmt.Sprintf("(encoding/binary.littleEndian).Uint%d", w)] = get(fmt.Sprintf("binary.LittleEndian.Uint%d", w), w, false)
	}
	// ---- io
	stdModels["io.ReadFull"] = func(fr *Frame, fn *ssa.Function, args []Value, pc *Term, st *State, pos token.Pos, resT types.Type) callResult {
		used(fr, "io.ReadFull (err == nil <=> n == len(buf))")
		fr.ex.readerDiscipline(args[0], pos, pc)
		// a *bytes.Buffer as the reader (lemma functions): exact semantics
		if iv, ok := args[0].(IfaceV); ok && iv.Tag.lit && iv.Tag.val.IsInt64() {
			if t, known := fr.ex.typeByID[int(iv.Tag.val.Int64())]; known && typeKey(t) == "*bytes.Buffer" {
				ex := fr.ex
				bp := ex.fromIface(iv, t)
				b := ex.loadBuf(st, bp, pc, pos)
				p := args[1].(SliceV)
				full := BVSle(p.Len, b.Len)
				n := Ite(full, p.Len, b.Len)
				src := SliceV{St: StDyn, ID: b.ID, Off: BV(0, 64), Len: b.Len, Cap: b.Len, Elem: types.Typ[types.Uint8]}
				sa := ex.sliceArr(st, src, 0, SBV(8))
				da := ex.sliceArr(st, p, 0, SBV(8))
				// case split on "enough bytes buffered" at the array level, so that the
				// copied ranges have syntactic lengths
				ex.setSliceArr(st, p, 0, Ite(full, CopyArr(da, p.Off, sa, BV(0, 64), p.Len), CopyArr(da, p.Off, sa, BV(0, 64), b.Len)))
				cur := ex.sliceArr(st, src, 0, SBV(8))
				ex.setSliceArr(st, src, 0, Ite(full, CopyArr(cur, BV(0, 64), sa, p.Len, BVSub(b.Len, p.Len)), cur))
				ex.store(st, bp, BufV{b.ID, BVSub(b.Len, n)}, pc, pos)
				return callResult{val: TupleV{[]Value{IntV{n}, ex.errValue(full, "readfull")}}, st: st}
			}
		}
		return fr.modelRead(args[1], pc, st, true)
	}
	stdModels["bytes.Equal"] = func(fr *Frame, fn *ssa.Function, args []Value, pc *Term, st *State, pos token.Pos, resT types.Type) callResult {
		used(fr, "bytes.Equal (exact for constant lengths up to 64; otherwise true implies equal lengths)")
		ex := fr.ex
		a, b := args[0].(SliceV), args[1].(SliceV)
		if a.Len.lit && b.Len.lit && a.Len.val.IsInt64() && a.Len.val.Int64() <= 64 {
			if a.Len.val.Cmp(b.Len.val) != 0 {
				return callResult{val: BoolV{False}, st: st}
			}
			eq := True
			for i := int64(0); i < a.Len.val.Int64(); i++ {
				x := ex.elemLoad(st, a, BV(uint64(i), 64)).(IntV).T
				y := ex.elemLoad(st, b, BV(uint64(i), 64)).(IntV).T
				eq = And(eq, Eq(x, y))
			}
			return callResult{val: BoolV{eq}, st: st}
		}
		r := Fresh("bytes.equal", SBool)
		ex.assume(pc, Implies(r, Eq(a.Len, b.Len)))
		return callResult{val: BoolV{r}, st: st}
	}
	stdModels["crypto/rand.Read"] = func(fr *Frame, fn *ssa.Function, args []Value, pc *Term, st *State, pos token.Pos, resT types.Type) callResult {
		used(fr, "crypto/rand.Read (fills the buffer with arbitrary bytes; err == nil <=> n == len(buf))")
		return fr.modelRead(args[0], pc, st, true)
	}
	// ---- context
	ctxModel := func(name string) stdModel {
		return func(fr *Frame, fn *ssa.Function, args []Value, pc *Term, st *State, pos token.Pos, resT types.Type) callResult {
			used(fr, name+" (returns a non-nil context and cancel function)")
			v := fr.ex.freshResult(resT, "ctx", st, pc)
			switch x := v.(type) {
			case TupleV:
				for _, e := range x.E {
					fr.ex.assumeNonNil(e, pc)
				}
			default:
				fr.ex.assumeNonNil(v, pc)
			}
			if name == "context.WithTimeout" {
				// remember the timeout the context was created with (contexts are immutable)
				if tv, ok := v.(TupleV); ok {
					if iv, ok := tv.E[0].(IfaceV); ok {
						if d, ok := args[1].(IntV); ok {
							ta := st.get("ctxmeta|timeout", SArr(SBV(64), SBV(64)))
							st.set("ctxmeta|timeout", Store(ta, iv.Pay, d.T))
						}
					}
				}
			}
			return callResult{val: v, st: st}
		}
	}
	stdModels["context.WithCancel"] = ctxModel("context.WithCancel")
	stdModels["context.WithTimeout"] = ctxModel("context.WithTimeout")
	stdModels["context.Background"] = ctxModel("context.Background")
}

func ptrName(p Value) string {
	if x, ok := p.(PtrV); ok {
		switch x.Kind {
		case PHeap:
			if x.Root != nil {
				return fieldPathName(x.Root, x.Path)
			}
		default:
			return x.Cell.name + pathStr(x.Path)
		}
	}
	return "?"
}

func (ex *Exec) loadBuf(st *State, p Value, pc *Term, pos token.Pos) BufV {
	v := ex.load(st, p, nil, pc, pos)
	b, ok := v.(BufV)
	if !ok {
		panic(fmt.Sprintf("bytes.Buffer method on %T", v))
	}
	if b.ID == RefNil() || (b.ID.lit && b.ID.val.Sign() == 0) {
		// zero Buffer: allocate its storage lazily
		id := ex.freshRef(st, pc, "buf")
		b = BufV{id, BV(0, 64)}
		ex.store(st, p, b, pc, pos)
	}
	return b
}

// now advances the monotone ghost clock.
func (ex *Exec) now(st *State, pc *Term) *Term {
	last := st.get("ghost|clock", SBV(64))
	t := Fresh("now", SBV(64))
	ex.assume(pc, And(BVSle(last, t), BVSlt(BV(0, 64), t), BVSlt(t, BV(1<<62, 64))))
	st.set("ghost|clock", t)
	return t
}

func (ex *Exec) eventPtr(st *State, kind string, p Value, pc *Term) {
	if x, ok := p.(PtrV); ok && x.Kind == PHeap {
		ex.event(st, kind, x.Ref, pc)
		return
	}
	ex.event(st, kind, RefNil(), pc)
}
