package main

// Symbolic values. Every value decomposes into a list of SMT terms (comps) and
// a static shape; merging two values of the same shape is a component-wise ite.

import (
	"fmt"
	"go/types"
	"strings"

	"golang.org/x/tools/go/ssa"
)

type Value interface {
	comps() []*Term
	rebuild(ts []*Term) Value
	shape() string
}

type IntV struct{ T *Term }
type BoolV struct{ T *Term }
type FloatV struct{ T *Term }
type TimeV struct{ T *Term }   // time.Time as int64 ns on a monotone clock, 0 = zero Time
type OpaqueV struct{ T *Term } // BV64 token
type ChanV struct{ Ref *Term }
type MapV struct{ Ref *Term }
type IfaceV struct{ Tag, Pay *Term } // Tag: BV16 dynamic type id (0 = nil), Pay: BV64 payload
type StringV struct{ ID, Len *Term } // opaque string identity + length
type LockV struct{ Held *Term }      // BV8: 0 free, 1 write-held by this thread, 2 read-held
type OnceV struct{ Done *Term }      // Bool

// Cell is a local variable (an ssa.Alloc instance or a spilled parameter).
type Cell struct {
	id   int
	name string
	typ  types.Type
}

type PtrKind int

const (
	PHeap  PtrKind = iota // pointer into a heap object of (named struct) type Root, at field path Path
	PLocal                // pointer into a local cell
	PGlobal               // pointer to a package-level variable (cell shared per run)
	PDyn                  // pointer to a dynamically allocated array of scalars (content in bmem[Ref])
)

type PtrV struct {
	Kind PtrKind
	Ref  *Term      // PHeap: object reference (0 = nil)
	Root types.Type // PHeap: type of the object Ref designates
	Path []int      // field/index path inside the object or cell
	Cell *Cell      // PLocal / PGlobal
}

// Backing store designator of a slice.
type StoreKind int

const (
	StDyn   StoreKind = iota // dynamically allocated array, content in bmem[id]
	StField                  // array-typed field of a heap object
	StLocal                  // array in a local cell
)

type SliceV struct {
	St   StoreKind
	ID   *Term // StDyn: array id (Ref sort, 0 = nil slice); StField: object ref
	Key  string
	Root types.Type // StField: object type
	Path []int      // StField / StLocal: path to the array
	Cell *Cell
	Off  *Term // BV64
	Len  *Term // BV64
	Cap  *Term // BV64
	Elem types.Type
	Snap *Term // contract evaluation only: content captured by old(...) (overrides the backing store)
}

type StructV struct {
	Typ types.Type // the (possibly named) struct type
	F   []Value
}

// ArrV is a by-value array with scalar elements, as one SMT array BV64 -> elem.
type ArrV struct {
	A    *Term
	N    int64
	Elem types.Type
}

// GoArrV is a small by-value array of non-scalar elements.
type GoArrV struct {
	E    []Value
	Elem types.Type
}

type FuncV struct {
	Fn   *ssa.Function
	Bind []Value
	ID   *Term // opaque identity when Fn == nil (BV32)
}

type TupleV struct{ E []Value }

// BufV models bytes.Buffer: bytes [0,Len) of bmem[ID].
type BufV struct{ ID, Len *Term }

func (v IntV) comps() []*Term    { return []*Term{v.T} }
func (v BoolV) comps() []*Term   { return []*Term{v.T} }
func (v FloatV) comps() []*Term  { return []*Term{v.T} }
func (v TimeV) comps() []*Term   { return []*Term{v.T} }
func (v OpaqueV) comps() []*Term { return []*Term{v.T} }
func (v ChanV) comps() []*Term   { return []*Term{v.Ref} }
func (v MapV) comps() []*Term    { return []*Term{v.Ref} }
func (v IfaceV) comps() []*Term  { return []*Term{v.Tag, v.Pay} }
func (v StringV) comps() []*Term { return []*Term{v.ID, v.Len} }
func (v LockV) comps() []*Term   { return []*Term{v.Held} }
func (v OnceV) comps() []*Term   { return []*Term{v.Done} }
func (v BufV) comps() []*Term    { return []*Term{v.ID, v.Len} }
func (v PtrV) comps() []*Term {
	if v.Kind == PHeap || v.Kind == PDyn {
		return []*Term{v.Ref}
	}
	return nil
}
func (v SliceV) comps() []*Term {
	if v.St == StLocal {
		return []*Term{v.Off, v.Len, v.Cap}
	}
	return []*Term{v.ID, v.Off, v.Len, v.Cap}
}
func (v StructV) comps() []*Term {
	var out []*Term
	for _, f := range v.F {
		out = append(out, f.comps()...)
	}
	return out
}
func (v ArrV) comps() []*Term { return []*Term{v.A} }
func (v GoArrV) comps() []*Term {
	var out []*Term
	for _, f := range v.E {
		out = append(out, f.comps()...)
	}
	return out
}
func (v FuncV) comps() []*Term {
	if v.Fn == nil {
		return []*Term{v.ID}
	}
	var out []*Term
	for _, f := range v.Bind {
		out = append(out, f.comps()...)
	}
	return out
}
func (v TupleV) comps() []*Term {
	var out []*Term
	for _, f := range v.E {
		out = append(out, f.comps()...)
	}
	return out
}

func (v IntV) rebuild(ts []*Term) Value    { return IntV{ts[0]} }
func (v BoolV) rebuild(ts []*Term) Value   { return BoolV{ts[0]} }
func (v FloatV) rebuild(ts []*Term) Value  { return FloatV{ts[0]} }
func (v TimeV) rebuild(ts []*Term) Value   { return TimeV{ts[0]} }
func (v OpaqueV) rebuild(ts []*Term) Value { return OpaqueV{ts[0]} }
func (v ChanV) rebuild(ts []*Term) Value   { return ChanV{ts[0]} }
func (v MapV) rebuild(ts []*Term) Value    { return MapV{ts[0]} }
func (v IfaceV) rebuild(ts []*Term) Value  { return IfaceV{ts[0], ts[1]} }
func (v StringV) rebuild(ts []*Term) Value { return StringV{ts[0], ts[1]} }
func (v LockV) rebuild(ts []*Term) Value   { return LockV{ts[0]} }
func (v OnceV) rebuild(ts []*Term) Value   { return OnceV{ts[0]} }
func (v BufV) rebuild(ts []*Term) Value    { return BufV{ts[0], ts[1]} }
func (v PtrV) rebuild(ts []*Term) Value {
	if v.Kind == PHeap || v.Kind == PDyn {
		v.Ref = ts[0]
	}
	return v
}
func (v SliceV) rebuild(ts []*Term) Value {
	if v.St == StLocal {
		v.Off, v.Len, v.Cap = ts[0], ts[1], ts[2]
		return v
	}
	v.ID, v.Off, v.Len, v.Cap = ts[0], ts[1], ts[2], ts[3]
	return v
}
func rebuildList(vs []Value, ts []*Term) []Value {
	out := make([]Value, len(vs))
	i := 0
	for k, f := range vs {
		n := len(f.comps())
		out[k] = f.rebuild(ts[i : i+n])
		i += n
	}
	return out
}
func (v StructV) rebuild(ts []*Term) Value { return StructV{v.Typ, rebuildList(v.F, ts)} }
func (v ArrV) rebuild(ts []*Term) Value    { return ArrV{ts[0], v.N, v.Elem} }
func (v GoArrV) rebuild(ts []*Term) Value  { return GoArrV{rebuildList(v.E, ts), v.Elem} }
func (v FuncV) rebuild(ts []*Term) Value {
	if v.Fn == nil {
		return FuncV{ID: ts[0]}
	}
	return FuncV{Fn: v.Fn, Bind: rebuildList(v.Bind, ts)}
}
func (v TupleV) rebuild(ts []*Term) Value { return TupleV{rebuildList(v.E, ts)} }

func pathStr(p []int) string {
	var sb strings.Builder
	for _, i := range p {
		fmt.Fprintf(&sb, ".%d", i)
	}
	return sb.String()
}

func (v IntV) shape() string    { return "int" + v.T.sort }
func (v BoolV) shape() string   { return "bool" }
func (v FloatV) shape() string  { return "float" + v.T.sort }
func (v TimeV) shape() string   { return "time" }
func (v OpaqueV) shape() string { return "opaque" }
func (v ChanV) shape() string   { return "chan" }
func (v MapV) shape() string    { return "map" }
func (v IfaceV) shape() string  { return "iface" }
func (v StringV) shape() string { return "string" }
func (v LockV) shape() string   { return "lock" }
func (v OnceV) shape() string   { return "once" }
func (v BufV) shape() string    { return "buf" }
func (v PtrV) shape() string {
	switch v.Kind {
	case PHeap:
		return "ptr:" + typeKey(v.Root) + pathStr(v.Path)
	case PLocal:
		return fmt.Sprintf("lptr:%d%s", v.Cell.id, pathStr(v.Path))
	case PDyn:
		return "dynarr:" + typeKey(v.Root)
	}
	return fmt.Sprintf("gptr:%d%s", v.Cell.id, pathStr(v.Path))
}
func (v SliceV) shape() string {
	switch v.St {
	case StDyn:
		return "slice:dyn:" + typeKey(v.Elem)
	case StField:
		return "slice:fld:" + typeKey(v.Root) + pathStr(v.Path)
	}
	return fmt.Sprintf("slice:loc:%d(%s)%s", v.Cell.id, v.Cell.name, pathStr(v.Path))
}
func shapes(vs []Value) string {
	var sb strings.Builder
	for _, f := range vs {
		sb.WriteString(f.shape())
		sb.WriteByte(';')
	}
	return sb.String()
}
func (v StructV) shape() string { return "struct{" + shapes(v.F) + "}" }
func (v ArrV) shape() string    { return fmt.Sprintf("arr%d:%s", v.N, v.A.sort) }
func (v GoArrV) shape() string  { return "goarr{" + shapes(v.E) + "}" }
func (v FuncV) shape() string {
	if v.Fn == nil {
		return "func?"
	}
	return "func:" + v.Fn.String() + "{" + shapes(v.Bind) + "}"
}
func (v TupleV) shape() string { return "tuple{" + shapes(v.E) + "}" }

func typeKey(t types.Type) string {
	if t == nil {
		return "?"
	}
	return types.TypeString(unaliasDeep(t), func(p *types.Package) string { return p.Name() })
}

// unaliasDeep replaces type aliases (btcec.PublicKey = secp256k1.PublicKey) by
// the types they denote, so that one object has one heap key.
func unaliasDeep(t types.Type) types.Type {
	switch x := t.(type) {
	case *types.Alias:
		return unaliasDeep(types.Unalias(x))
	case *types.Basic:
		// byte and rune are other names of uint8 and int32
		switch x.Kind() {
		case types.Uint8:
			return types.Typ[types.Uint8]
		case types.Int32:
			return types.Typ[types.Int32]
		}
	case *types.Pointer:
		return types.NewPointer(unaliasDeep(x.Elem()))
	case *types.Slice:
		return types.NewSlice(unaliasDeep(x.Elem()))
	case *types.Array:
		return types.NewArray(unaliasDeep(x.Elem()), x.Len())
	case *types.Chan:
		return types.NewChan(x.Dir(), unaliasDeep(x.Elem()))
	case *types.Map:
		return types.NewMap(unaliasDeep(x.Key()), unaliasDeep(x.Elem()))
	}
	return t
}

type shapeMismatch struct{ a, b string }

func (e shapeMismatch) Error() string { return "cannot merge values of shapes " + e.a + " / " + e.b }

// MergeV returns ite(c, a, b).
func MergeV(c *Term, a, b Value) Value {
	if c == True {
		return a
	}
	if c == False {
		return b
	}
	if a == nil {
		return b
	}
	if b == nil {
		return a
	}
	sa, sb := a.shape(), b.shape()
	if sa != sb {
		// nil-pointer literals adapt to the other side
		if pa, ok := a.(PtrV); ok {
			if pb, ok := b.(PtrV); ok && pa.Kind == PHeap && pb.Kind == PHeap {
				if pa.Ref == RefNil() {
					pa.Root, pa.Path = pb.Root, pb.Path
					return MergeV(c, pa, pb)
				}
				if pb.Ref == RefNil() {
					pb.Root, pb.Path = pa.Root, pa.Path
					return MergeV(c, pa, pb)
				}
			}
		}
		if la, ok := a.(SliceV); ok {
			if lb, ok := b.(SliceV); ok {
				// a nil slice adapts to the other designator
				if la.St == StDyn && la.ID == RefNil() && lb.St != StLocal {
					la.St, la.Key, la.Root, la.Path = lb.St, lb.Key, lb.Root, lb.Path
					if la.shape() != lb.shape() {
						panic(shapeMismatch{sa, sb})
					}
					return MergeV(c, la, lb)
				}
				if lb.St == StDyn && lb.ID == RefNil() && la.St != StLocal {
					lb.St, lb.Key, lb.Root, lb.Path = la.St, la.Key, la.Root, la.Path
					if la.shape() != lb.shape() {
						panic(shapeMismatch{sa, sb})
					}
					return MergeV(c, la, lb)
				}
			}
		}
		panic(shapeMismatch{sa, sb})
	}
	ca, cb := a.comps(), b.comps()
	out := make([]*Term, len(ca))
	same := true
	for i := range ca {
		out[i] = Ite(c, ca[i], cb[i])
		if out[i] != ca[i] {
			same = false
		}
	}
	if same {
		return a
	}
	return a.rebuild(out)
}

// EqV is structural equality of two values of the same shape.
func EqV(a, b Value) *Term {
	if a.shape() != b.shape() {
		if pa, ok := a.(PtrV); ok {
			if pb, ok := b.(PtrV); ok {
				if pa.Kind == PHeap && pb.Kind == PHeap {
					return Eq(pa.Ref, pb.Ref)
				}
				// a local/global pointer is never nil and never equal to a heap pointer
				return False
			}
		}
		if fa, ok := a.(FuncV); ok {
			if fb, ok := b.(FuncV); ok {
				if fa.Fn == nil && fb.Fn == nil {
					return Eq(fa.ID, fb.ID)
				}
				if fa.Fn == nil {
					return And(Neq(fa.ID, RefNil()), Fresh("funeq", SBool))
				}
				if fb.Fn == nil {
					return And(Neq(fb.ID, RefNil()), Fresh("funeq", SBool))
				}
				return Fresh("funeq", SBool)
			}
		}
		panic(shapeMismatch{a.shape(), b.shape()})
	}
	if aa, ok := a.(ArrV); ok {
		// by-value arrays are compared element-wise on their N elements
		if ab, ok := b.(ArrV); ok && aa.N <= 64 && aa.N > 0 {
			if aa.A == ab.A {
				return True
			}
			return Eq(packArr(aa.A, int(aa.N)), packArr(ab.A, int(ab.N)))
		}
	}
	ca, cb := a.comps(), b.comps()
	var cs []*Term
	for i := range ca {
		cs = append(cs, Eq(ca[i], cb[i]))
	}
	return And(cs...)
}

func isNamed(t types.Type, pkg, name string) bool {
	if a, ok := t.(*types.Alias); ok {
		t = types.Unalias(a)
	}
	n, ok := t.(*types.Named)
	if !ok {
		return false
	}
	o := n.Obj()
	return o.Name() == name && o.Pkg() != nil && o.Pkg().Path() == pkg
}

func intWidth(b *types.Basic) (int, bool) {
	switch b.Kind() {
	case types.Int8:
		return 8, true
	case types.Uint8:
		return 8, false
	case types.Int16:
		return 16, true
	case types.Uint16:
		return 16, false
	case types.Int32:
		return 32, true
	case types.Uint32:
		return 32, false
	case types.Int64, types.Int, types.UntypedInt, types.UntypedRune:
		return 64, true
	case types.Uint64, types.Uint, types.Uintptr:
		return 64, false
	}
	return 0, false
}

const (
	SF32 = "(_ FloatingPoint 8 24)"
	SF64 = "(_ FloatingPoint 11 53)"
)

func isIntType(t types.Type) (w int, signed bool, ok bool) {
	b, isb := t.Underlying().(*types.Basic)
	if !isb {
		return 0, false, false
	}
	if b.Info()&types.IsInteger == 0 {
		return 0, false, false
	}
	w, signed = intWidth(b)
	return w, signed, w > 0
}

// scalarSort returns the SMT sort of array elements of type t if t is a scalar.
func scalarSort(t types.Type) (string, bool) {
	if w, _, ok := isIntType(t); ok {
		return SBV(w), true
	}
	switch u := t.Underlying().(type) {
	case *types.Basic:
		if u.Kind() == types.Bool {
			return SBool, true
		}
	case *types.Pointer:
		return SRef, true
	}
	return "", false
}
