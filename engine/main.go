package main

import (
	rdebug "runtime/debug"
	"runtime/pprof"
	"flag"
	"fmt"
	"os"
	"path/filepath"
	"runtime"
	"sort"
	"strings"
	"sync"
	"time"
)

func hasLambda(ts ...*Term) bool {
	seen := map[int]bool{}
	var visit func(t *Term) bool
	visit = func(t *Term) bool {
		if seen[t.id] {
			return false
		}
		seen[t.id] = true
		if t.op == "copyarr" {
			return true
		}
		for _, a := range t.args {
			if visit(a) {
				return true
			}
		}
		return false
	}
	for _, t := range ts {
		if visit(t) {
			return true
		}
	}
	return false
}

var leafCache = map[int][]int{}

// leafSet: ids of the leaf symbols of t (cached per root; terms are immutable).
func leafSet(t *Term) []int {
	if ls, ok := leafCache[t.id]; ok {
		return ls
	}
	seen := map[int]bool{}
	var out []int
	var walk func(x *Term)
	walk = func(x *Term) {
		if seen[x.id] {
			return
		}
		seen[x.id] = true
		if x.leaf {
			out = append(out, x.id)
		}
		for _, a := range x.args {
			walk(a)
		}
	}
	walk(t)
	leafCache[t.id] = out
	return out
}

// relevant keeps the assumptions in the cone of influence of the goal.
func relevant(assumes []*Term, goal *Term) []*Term { return relevantDepth(assumes, goal, 0) }

// relevantDepth: the cone of influence cut after depth rounds (0: transitive
// closure). A cut cone is a weaker set of hypotheses: unsat remains conclusive.
func relevantDepth(assumes []*Term, goal *Term, depth int) []*Term {
	byLeaf := map[int][]int{}
	used := make([]bool, len(assumes))
	var work []int
	for i, a := range assumes {
		ls := leafSet(a)
		if len(ls) == 0 {
			used[i] = true
			continue
		}
		for _, k := range ls {
			byLeaf[k] = append(byLeaf[k], i)
		}
	}
	syms := map[int]bool{}
	for _, k := range leafSet(goal) {
		if !syms[k] {
			syms[k] = true
			work = append(work, k)
		}
	}
	for round := 1; len(work) > 0; round++ {
		var next []int
		for _, k := range work {
			for _, i := range byLeaf[k] {
				if used[i] {
					continue
				}
				used[i] = true
				for _, k2 := range leafSet(assumes[i]) {
					if !syms[k2] {
						syms[k2] = true
						next = append(next, k2)
					}
				}
			}
		}
		work = next
		if depth > 0 && round >= depth {
			break
		}
	}
	var out []*Term
	for i, a := range assumes {
		if used[i] {
			out = append(out, a)
		}
	}
	return out
}

// buildScript renders the VC of o. With groundOnly the quantified hypotheses
// are replaced by their ground instances (a weaker, quantifier-free VC: unsat
// still proves the obligation, sat means nothing).
func buildScript(assumes []*Term, o *Obligation, groundOnly bool) (string, []string, bool) {
	return buildScriptD(assumes, o, groundOnly, 0)
}

func buildScriptD(assumes []*Term, o *Obligation, groundOnly bool, depth int) (string, []string, bool) {
	target := And(o.PC, Not(o.Goal))
	as := relevantDepth(assumes[:o.NAssume], target, depth)
	if depth > 0 && groundOnly {
		// shallow pass: quantifier-free hypotheses of the cut cone and their instances
		roots := append(append([]*Term(nil), as...), target)
		insts := instantiate(roots, target)
		var kept []*Term
		for _, r := range append(roots, insts...) {
			if !hasQuant(r) {
				kept = append(kept, r)
			}
		}
		if pushSel {
			for i := range kept {
				kept[i] = pushSelects(kept[i])
			}
		}
		if fs := freshIn(kept); len(fs) > 0 {
			kept = append(kept, App("distinct", SBool, append([]*Term{RefNil()}, fs...)...))
		}
		return ScriptDefs(kept, nil, nil), nil, hasLambda(kept...)
	}
	roots := append(append([]*Term(nil), as...), target)
	insts := instantiate(roots, target)
	if groundOnly {
		var kept []*Term
		for _, r := range roots {
			if !hasQuant(r) {
				kept = append(kept, r)
			}
		}
		if len(kept) == len(roots) {
			return "", nil, false
		}
		roots = kept
		var gi []*Term
		for _, r := range insts {
			if !hasQuant(r) {
				gi = append(gi, r)
			}
		}
		insts = gi
	}
	roots = append(roots, insts...)
	if pushSel && groundOnly {
		for i := range roots {
			roots[i] = pushSelects(roots[i])
		}
	}
	var probeTerms []*Term
	for _, p := range o.Probes {
		probeTerms = append(probeTerms, p.T)
	}
	// allocation symbols are pairwise distinct and non-nil (the term layer
	// folds with this fact, so the solvers must be told)
	if fs := freshIn(append(append([]*Term(nil), roots...), probeTerms...)); len(fs) > 0 {
		roots = append(roots, App("distinct", SBool, append([]*Term{RefNil()}, fs...)...))
	}
	// probes must be defined in the script: add them as harmless roots
	all := append(append([]*Term(nil), roots...), probeTerms...)
	lam := hasLambda(all...)
	script := scriptWithProbes(roots, probeTerms)
	var probes []string
	for i := range o.Probes {
		probes = append(probes, fmt.Sprintf("?probe%d", i))
	}
	return script, probes, lam
}

var pushSel = os.Getenv("LNCVC_NOPUSHSEL") == ""
var shallowLimit = func() int {
	if v := os.Getenv("LNCVC_SHALLOWLIMIT"); v != "" {
		n := 0
		fmt.Sscanf(v, "%d", &n)
		if n > 0 {
			return n
		}
	}
	return 6
}()
var shallowDepth = func() int {
	if v := os.Getenv("LNCVC_SHALLOW"); v != "" {
		n := 0
		fmt.Sscanf(v, "%d", &n)
		if n > 0 {
			return n
		}
	}
	return 2
}()
var pushMemo = map[int]*Term{}
var selPushMemo = map[[2]int]*Term{}

// pushSelects rewrites reads of updated / merged arrays into case splits
// (read-over-write done at the term level), so that the solvers see base
// arrays only under select.
func pushSelects(t *Term) *Term {
	if r, ok := pushMemo[t.id]; ok {
		return r
	}
	r := t
	if len(t.args) > 0 {
		args := make([]*Term, len(t.args))
		changed := false
		for i, a := range t.args {
			args[i] = pushSelects(a)
			if args[i] != a {
				changed = true
			}
		}
		if t.op == "select" {
			r = selPush(args[0], args[1])
		} else if changed {
			r = rebuildTerm(t, args)
		}
	}
	pushMemo[t.id] = r
	return r
}

func selPush(a, i *Term) *Term {
	key := [2]int{a.id, i.id}
	if r, ok := selPushMemo[key]; ok {
		return r
	}
	var r *Term
	switch a.op {
	case "store":
		j, v := a.args[1], a.args[2]
		switch {
		case i == j:
			r = v
		case knownDistinct(i, j):
			r = selPush(a.args[0], i)
		default:
			r = Ite(Eq(i, j), v, selPush(a.args[0], i))
		}
	case "ite":
		r = Ite(a.args[0], selPush(a.args[1], i), selPush(a.args[2], i))
	case "constarr":
		r = a.args[0]
	case "copyarr":
		r = SelectA(a, i)
	default:
		r = Select(a, i)
	}
	selPushMemo[key] = r
	return r
}

func freshIn(ts []*Term) []*Term {
	seen := map[int]bool{}
	var out []*Term
	var walk func(t *Term)
	walk = func(t *Term) {
		if seen[t.id] {
			return
		}
		seen[t.id] = true
		if freshSyms[t.id] {
			out = append(out, t)
		}
		for _, a := range t.args {
			walk(a)
		}
	}
	for _, t := range ts {
		walk(t)
	}
	sort.Slice(out, func(i, j int) bool { return out[i].id < out[j].id })
	return out
}

// scriptWithProbes renders roots as assertions and probe terms as named
// definitions ?probeN.
func scriptWithProbes(roots, probes []*Term) string {
	// reuse Script: assert roots; then define probes through equalities with fresh names
	var extra []*Term
	var names []string
	for i, p := range probes {
		n := fmt.Sprintf("?probe%d", i)
		names = append(names, n)
		extra = append(extra, p)
	}
	base := ScriptDefs(roots, extra, names)
	return base
}

type solveJob struct {
	fr *FuncResult
	o  *Obligation
}

func main() {
	repo := flag.String("repo", "/repo", "repository root")
	pkgsF := flag.String("pkgs", "gbn,mailbox", "package directories")
	prop := flag.String("prop", "", "property id (empty: all)")
	fnF := flag.String("func", "", "only this function (contract name)")
	tier := flag.String("tier", "quick", "quick|thorough")
	verbose := flag.Bool("v", false, "verbose")
	debug := flag.Bool("debug", false, "panic on engine errors")
	dump := flag.String("dump", "", "directory to dump SMT scripts of failed obligations")
	outDir := flag.String("verif", "/verif", "verif directory (evidence, replays, known findings)")
	noEvidence := flag.Bool("no-evidence", false, "do not write evidence")
	replayF := flag.String("replay", "", "re-run the replay test stored in this replay file")
	noReplay := flag.Bool("no-replay", false, "do not run replay tests")
	flag.Parse()
	rdebug.SetGCPercent(400)
	if pf := os.Getenv("LNCVC_PROF"); pf != "" {
		f, _ := os.Create(pf)
		pprof.StartCPUProfile(f)
		defer pprof.StopCPUProfile()
	}
	if *replayF != "" {
		os.Exit(rerunReplay(*replayF))
	}
	os_debug = *debug
	start := time.Now()
	defer cleanupScratch()

	pkgDirs := strings.Split(*pkgsF, ",")
	if *prop != "" {
		// only load the packages whose contract file mentions the property
		var keep []string
		for _, d := range pkgDirs {
			data, err := os.ReadFile(filepath.Join(*repo, d, contractFile))
			if err == nil && strings.Contains(string(data), *prop) {
				keep = append(keep, d)
			}
		}
		if len(keep) > 0 {
			pkgDirs = keep
		}
	}
	// mailbox contracts refer to spec functions exported by gbn's contract file
	hasM, hasG := false, false
	for _, d := range pkgDirs {
		hasM = hasM || d == "mailbox"
		hasG = hasG || d == "gbn"
	}
	if hasM && !hasG {
		pkgDirs = append([]string{"gbn"}, pkgDirs...)
	}
	ctx, err := LoadCtx(*repo, pkgDirs)
	if err != nil {
		fmt.Println("ENGINE-ERROR:", err)
		reportLoadFailure(*prop, *outDir, err)
		os.Exit(1)
	}
	loadS := time.Since(start).Seconds()
	var cts []*Contract
	for _, ct := range ctx.contracts {
		if *fnF != "" && contractName(ct) != *fnF {
			continue
		}
		if *prop != "" && !contains(ct.Props, *prop) {
			continue
		}
		if ct.PointsOnly {
			continue
		}
		cts = append(cts, ct)
	}
	sort.Slice(cts, func(i, j int) bool { return contractName(cts[i]) < contractName(cts[j]) })
	timeout := 150
	if *tier == "thorough" {
		timeout = 450
	}
	var results []*FuncResult
	for _, ct := range cts {
		t0 := time.Now()
		r := ctx.verifyFunction(ct)
		results = append(results, r)
		if *verbose {
			fmt.Printf("  generated %-40s %3d obligations (%d assumptions) in %.2fs\n", r.Name, len(r.Obls), len(r.Assumes), time.Since(t0).Seconds())
		}
	}
	genS := time.Since(start).Seconds() - loadS
	// discharge
	var jobs []solveJob
	for _, r := range results {
		for _, o := range r.Obls {
			if *prop != "" && len(o.Props) > 0 && !contains(o.Props, *prop) {
				continue
			}
			jobs = append(jobs, solveJob{r, o})
		}
		if r.Vacuity != nil {
			jobs = append(jobs, solveJob{r, r.Vacuity})
		}
		for _, cv := range r.Covers {
			jobs = append(jobs, solveJob{r, cv})
		}
	}
	var wg sync.WaitGroup
	sem := make(chan struct{}, 2*runtime.NumCPU())
	var mu sync.Mutex
	scripts := map[*Obligation]string{}
	for _, j := range jobs {
		mu.Lock()
		script, probes, lam := buildScript(j.fr.Assumes, j.o, false)
		gscript, _, glam := buildScript(j.fr.Assumes, j.o, true)
		sscript, slam := "", false
		if j.o.Kind != "cover" && j.o.Kind != "vacuity" && os.Getenv("LNCVC_NOSHALLOW") == "" {
			sscript, _, slam = buildScriptD(j.fr.Assumes, j.o, true, shallowDepth)
		}
		scripts[j.o] = script
		if *dump != "" && gscript != "" {
			os.MkdirAll(*dump, 0o755)
			os.WriteFile(filepath.Join(*dump, sanitize(j.o.Name)+".ground.smt2"), []byte(gscript+"(check-sat)\n"), 0o644)
		}
		mu.Unlock()
		wg.Add(1)
		sem <- struct{}{}
		go func(j solveJob, script, gscript, sscript string, probes []string, lam, glam, slam bool) {
			defer wg.Done()
			defer func() { <-sem }()
			j.o.Lambda = lam
			if j.o.Kind == "cover" || j.o.Kind == "vacuity" {
				// expected sat; a short budget is enough (undecided is tolerated)
				j.o.Res = Solve(script, nil, 5, lam)
				if j.o.Res.Status == "unsat" && j.o.NAssumePre >= 0 {
					// was the point before the step reachable at all?
					pre := *j.o
					pre.NAssume = j.o.NAssumePre
					mu.Lock()
					ps, _, pl := buildScript(j.fr.Assumes, &pre, false)
					mu.Unlock()
					j.o.PreRes = Solve(ps, nil, 5, pl)
					if j.o.PreRes.Status == "unsat" {
						// a dead path (e.g. a dispatch branch excluded by the precondition): nothing to blame
						j.o.Res.Status = "dead-path"
					}
				}
				return
			}
			usedScript, usedLam := "", false
			defer func() {
				if *tier == "thorough" && j.o.Res.Status == "unsat" && usedScript != "" {
					who, ans := CrossCheck(usedScript, j.o.Res.Solver, usedLam, 60)
					switch ans {
					case "unsat":
						j.o.Cross = who
					case "sat":
						j.o.Res.Status = "error"
						j.o.Res.Output = "solver disagreement: " + j.o.Res.Solver + " answered unsat, " + who + " answered sat"
					}
				}
			}()
			if sscript != "" {
				// the two-step cone of influence, quantifier-free: unsat is conclusive
				r := Solve(sscript, nil, shallowLimit, slam)
				if r.Status == "unsat" {
					r.Solver += " (shallow cone)"
					j.o.Res = r
					usedScript, usedLam = sscript, slam
					return
				}
			}
			if gscript != "" {
				// quantifier-free approximation first: unsat is conclusive
				gt := timeout
				r := Solve(gscript, nil, gt, glam)
				if r.Status == "unsat" {
					r.Solver += " (ground instances)"
					j.o.Res = r
					usedScript, usedLam = gscript, glam
					return
				}
				if r.Status == "sat" && timeout <= 150 {
					// the instantiated VC has a model: the quantified VC is rarely
					// provable then; give it a third of the budget in the quick tier
					j.o.Res = Solve(script, probes, timeout/3, lam)
					usedScript, usedLam = script, lam
					return
				}
			}
			j.o.Res = Solve(script, probes, timeout, lam)
			usedScript, usedLam = script, lam
		}(j, script, gscript, sscript, probes, lam, glam, slam)
	}
	wg.Wait()
	rep := &Report{Ctx: ctx, Results: results, Prop: *prop, Tier: *tier, Verbose: *verbose, Dump: *dump, Scripts: scripts,
		Verif: *outDir, LoadS: loadS, GenS: genS, Start: start, NoEvidence: *noEvidence, NoReplay: *noReplay}
	code := rep.Finish()
	cleanupScratch()
	pprof.StopCPUProfile()
	os.Exit(code)
}

func contains(xs []string, x string) bool {
	for _, y := range xs {
		if y == x {
			return true
		}
	}
	return false
}

// instantiate adds ground instances of the asserted-positive quantifiers in
// roots (E-matching in miniature): a quantifier whose body reads array A at its
// bound variable is instantiated at every index at which A is read in the
// ground part of the VC (two rounds, so that chains of frame axioms connect),
// plus the skolem constants of the goal. The quantified formulas stay in place;
// the instances only help the solvers.
type trigInfo struct {
	triggers map[int]bool
	pats     map[int][]*Term
}

var trigCache = map[int]trigInfo{}

func instantiate(roots []*Term, target *Term) []*Term {
	type qinfo struct {
		q        *Term
		root     *Term
		triggers map[int]bool // array term ids selected at the bound variable
		pats     map[int][]*Term // array id -> index patterns (terms over the bound variable)
	}
	var qs []qinfo
	for _, r := range roots {
		if !hasQuant(r) {
			continue
		}
		seen := map[int]bool{}
		var find func(t *Term)
		find = func(t *Term) {
			if seen[t.id] || !hasQuant(t) {
				return
			}
			seen[t.id] = true
			if t.op == "forall" && instQuant[t.id] {
				qi := qinfo{q: t, root: r}
				if c, ok := trigCache[t.id]; ok {
					qi.triggers, qi.pats = c.triggers, c.pats
				} else {
					qi.triggers, qi.pats = map[int]bool{}, map[int][]*Term{}
					bv := t.args[0]
					s2 := map[int]bool{}
					var trig func(x *Term)
					trig = func(x *Term) {
						if s2[x.id] {
							return
						}
						s2[x.id] = true
						if x.op == "select" && mentions(x.args[1], bv) {
							qi.triggers[x.args[0].id] = true
							qi.pats[x.args[0].id] = append(qi.pats[x.args[0].id], x.args[1])
						}
						for _, a := range x.args {
							trig(a)
						}
					}
					trig(t.args[1])
					trigCache[t.id] = trigInfo{qi.triggers, qi.pats}
				}
				qs = append(qs, qi)
				return
			}
			for _, a := range t.args {
				find(a)
			}
		}
		find(r)
	}
	if len(qs) == 0 {
		return nil
	}
	// skolem constants of the goal, by sort
	skolems := map[string][]*Term{}
	{
		seen := map[int]bool{}
		var col func(t *Term)
		col = func(t *Term) {
			if seen[t.id] {
				return
			}
			seen[t.id] = true
			if t.leaf && !boundVars[t.id] && (strings.HasPrefix(t.op, "q.") || strings.HasPrefix(t.op, "seq.k") || strings.HasPrefix(t.op, "frame.k")) {
				skolems[t.sort] = append(skolems[t.sort], t)
			}
			if t.op == "forall" || t.op == "exists" {
				return
			}
			for _, a := range t.args {
				col(a)
			}
		}
		col(target)
	}
	var out []*Term
	done := map[string]bool{}
	// goal-directed: round 1 matches against the goal, later rounds against the
	// instances produced so far
	ground := []*Term{target}
	for round := 0; round < 3; round++ {
		// index terms per array id in the ground part
		reads := map[int][]*Term{}
		seen := map[int]bool{}
		var col func(t *Term)
		col = func(t *Term) {
			if seen[t.id] {
				return
			}
			seen[t.id] = true
			if t.op == "forall" || t.op == "exists" {
				return
			}
			if t.op == "select" && !hasBound(t.args[1]) {
				// a read of ite(c, A, B) or store(A, ...) is a read of A (and B)
				for _, aid := range arrayLeaves(t.args[0], map[int]bool{}) {
					reads[aid] = append(reads[aid], t.args[1])
				}
			}
			for _, a := range t.args {
				col(a)
			}
		}
		for _, g := range ground {
			col(g)
		}
		var added []*Term
		for _, qi := range qs {
			cands := map[int]*Term{}
			for _, sk := range skolems[qi.q.args[0].sort] {
				cands[sk.id] = sk
				if sk.sort == SBV(64) {
					m1, p1 := BVSub(sk, BV(1, 64)), BVAdd(sk, BV(1, 64))
					cands[m1.id], cands[p1.id] = m1, p1
				}
			}
			bv := qi.q.args[0]
			for aid := range qi.triggers {
				for _, ix := range reads[aid] {
					for _, pat := range qi.pats[aid] {
						// solve pat[bv := c] == ix for the simple patterns bv and X + bv
						var c *Term
						switch {
						case pat == bv:
							c = ix
						case pat.op == "bvadd" && len(pat.args) == 2 && pat.args[1] == bv && !mentions(pat.args[0], bv):
							c = BVSub(ix, pat.args[0])
						case pat.op == "bvadd" && len(pat.args) == 2 && pat.args[0] == bv && !mentions(pat.args[1], bv):
							c = BVSub(ix, pat.args[1])
						}
						if c != nil && c.sort == bv.sort && !hasBound(c) {
							cands[c.id] = c
						}
					}
				}
			}
			n := 0
			var cl []*Term
			for _, c := range cands {
				cl = append(cl, c)
			}
			sort.Slice(cl, func(i, j int) bool { return cl[i].id < cl[j].id })
			for _, c := range cl {
				if n >= 64 {
					break
				}
				key := fmt.Sprintf("%d/%d/%d", qi.root.id, qi.q.id, c.id)
				if done[key] {
					continue
				}
				done[key] = true
				n++
				body := Replace(qi.q.args[1], qi.q.args[0], c, map[int]*Term{})
				inst := Replace(qi.root, qi.q, body, map[int]*Term{})
				if inst != qi.root {
					added = append(added, inst)
				}
			}
		}
		out = append(out, added...)
		ground = added
		if len(added) == 0 {
			break
		}
	}
	return out
}

func mentions(t, v *Term) bool { return mentionsM(t, v, map[int]bool{}) }

func mentionsM(t, v *Term, seen map[int]bool) bool {
	if t == v {
		return true
	}
	if seen[t.id] {
		return false
	}
	seen[t.id] = true
	for _, a := range t.args {
		if mentionsM(a, v, seen) {
			return true
		}
	}
	return false
}

var hasQuantMemo = map[int]bool{}

func hasQuant(t *Term) bool {
	if r, ok := hasQuantMemo[t.id]; ok {
		return r
	}
	r := t.op == "forall" || t.op == "exists"
	for _, a := range t.args {
		if hasQuant(a) {
			r = true
		}
	}
	hasQuantMemo[t.id] = r
	return r
}

func arrayLeaves(a *Term, seen map[int]bool) []int {
	if seen[a.id] {
		return nil
	}
	seen[a.id] = true
	out := []int{a.id}
	switch a.op {
	case "ite":
		out = append(out, arrayLeaves(a.args[1], seen)...)
		out = append(out, arrayLeaves(a.args[2], seen)...)
	case "store":
		out = append(out, arrayLeaves(a.args[0], seen)...)
	}
	return out
}
