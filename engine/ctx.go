package main

// Loading /repo, parsing the contract comments of the guarded file
// verif_contracts.go, generating the typed contract stubs (overlay, never
// written into /repo) and building go/ssa in naive form.

import (
	"bytes"
	"fmt"
	"go/ast"
	"go/parser"
	"go/printer"
	"go/token"
	"go/types"
	"os"
	"path/filepath"
	"regexp"
	"sort"
	"strconv"
	"strings"

	"golang.org/x/tools/go/packages"
	"golang.org/x/tools/go/ssa"
	"golang.org/x/tools/go/ssa/ssautil"
)

type Clause struct {
	Kind  string // requires | ensures | modifies
	Text  string
	Line  int
	File  string
	Exprs []ast.Expr // typed expressions from the generated stub
	Index int
	Props []string // optional: @C01,C09 prefix restricts the clause to these properties
}

type LoopSpec struct {
	Kind    string // invariant | decreases | unroll
	Loop    int    // ordinal, or -1 with Label
	Label   string
	Text    string
	Line    int
	File    string
	Index   int
	Expr    ast.Expr
	Info    *types.Info
	Pos     token.Pos
	checked bool
	Props   []string
}

var atRe = regexp.MustCompile(`^"((?:[^"\\]|\\.)*)"(?:#(\d+))?\s+(assert|assume)\s+(.*)$`)

// PointSpec is an assertion attached to the first statement whose source line
// contains Pattern (the pattern must occur on exactly one line of the function).
type PointSpec struct {
	Missing    string // non-empty: the anchor statement was not found
	Pattern    string
	Text       string
	Line       int
	File       string
	Index      int
	Props      []string
	Expr       ast.Expr
	Info       *types.Info
	SrcLine    int
	SrcFile    string
	Pos        token.Pos
	ready      bool
	Assume     bool // the fact is assumed, not proved (listed in the evidence)
	Occurrence int  // "pattern"#k: the k-th line containing the pattern (0: the pattern must be unique)
}

type Contract struct {
	Points     []*PointSpec
	Header     string
	RecvType   string
	Name       string
	File       string
	Line       int
	Props      []string
	Clauses    []*Clause
	Loops      []*LoopSpec
	Inline     bool
	Trusted    bool
	Pure       bool // the function's result depends only on its arguments (no heap reads)
	Fn         *ssa.Function
	Stub       *ast.FuncDecl // generated stub (typed)
	StubObj    *types.Func
	Decl       *ast.FuncDecl // the real function
	Replay     string
	NoFrame    bool
	Unfolds    []string
	PointsOnly bool
	WithInit   bool     // the package initialisers are executed first, so that package-level tables have their values
	Exclusive  bool     // the function needs exclusive access to its receiver (writes fields that have no lock)
	Acquires   []string // mutexes (Type.field) the function may acquire, transitively
	Role       string   // goroutine role the function is the body of
	Atomic     []string
	Extra      map[string][]string
}

type VerifCtx struct {
	repo            string
	pkgDirs         []string
	fset            *token.FileSet
	pkgs            []*packages.Package
	prog            *ssa.Program
	rootPkgs        []*ssa.Package
	contracts       map[*ssa.Function]*Contract
	byName          map[string]*Contract
	implCache       map[string][]implInfo
	usedModels      map[string]int
	srcCache        map[string][]byte
	closed          map[types.Object]bool // channel-holding vars/fields that are passed to close() somewhere
	closedAny       bool
	folded          int
	specDecls       map[types.Object]*ast.FuncDecl
	infoOf          map[*types.Package]*types.Info
	pkgOf           map[*types.Package]*packages.Package
	genFiles        map[string]string
	decls           map[*types.Func]*ast.FuncDecl
	fieldDisc       map[string]fieldDiscipline
	lockRank        map[string]int
	wgLocks         map[string]map[string]bool // WaitGroup field -> mutex fields the goroutines it waits for may acquire
	calledContracts map[string]int
	lockSlots       map[string]bool
	disc            func(ex *Exec, st *State, p PtrV, write bool, pc *Term, pos token.Pos)
	axioms          map[*types.Package]*Contract
	chanKinds map[string]string
	externs         [][2]string
}

type fieldDiscipline struct {
	Kind string // guarded_by | atomic | immutable | owned_by | chan | any
	Arg  string
}

var clauseKW = regexp.MustCompile(`^(func|props|requires|ensures|modifies|loop|label|inline|trusted|pure|import|replay|noframe|field|lockorder|lemma|spec|axiom|at|extern|chan|exclusive|acquires|role|withinit|unfolds|pointsonly)\b`)

type rawContract struct {
	header string
	line   int
	lines  []rawLine
}
type rawLine struct {
	text string
	line int
}

// parseContractFile extracts //@ blocks.
var eventKindRE = regexp.MustCompile(`(?:nevents|events)\("([^"]*)"\)|eventref\[[^\]]*\]\("([^"]*)"`)

func parseContractFile(path string) (imports []string, raws []*rawContract, fileDirectives []rawLine, err error) {
	data, err := os.ReadFile(path)
	if err != nil {
		return nil, nil, nil, err
	}
	// every event kind named in a contract is part of the ghost state, so that
	// `modifies events("*")` covers it even before the first event of that kind
	for _, m := range eventKindRE.FindAllStringSubmatch(string(data), -1) {
		k := m[1] + m[2]
		if k != "" && k != "*" {
			heapSorts["ghost|ev."+k+".n"] = SBV(64)
			heapSorts["ghost|ev."+k+".ref"] = SArr(SBV(64), SRef)
		}
	}
	var cur *rawContract
	var axioms *rawContract
	for i, ln := range strings.Split(string(data), "\n") {
		t := strings.TrimSpace(ln)
		if !strings.HasPrefix(t, "//@") {
			continue
		}
		body := strings.TrimSpace(strings.TrimPrefix(t, "//@"))
		if body == "" {
			continue
		}
		if clauseKW.MatchString(body) {
			kw := clauseKW.FindString(body)
			switch kw {
			case "import":
				imports = append(imports, strings.TrimSpace(strings.TrimPrefix(body, "import")))
				continue
			case "func":
				cur = &rawContract{header: body, line: i + 1}
				raws = append(raws, cur)
				continue
			case "field", "lockorder", "extern", "chan":
				fileDirectives = append(fileDirectives, rawLine{body, i + 1})
				continue
			case "axiom":
				if axioms == nil {
					axioms = &rawContract{header: "func lncvcAxioms()", line: i + 1}
					raws = append(raws, axioms)
				}
				axioms.lines = append(axioms.lines, rawLine{"requires " + strings.TrimSpace(strings.TrimPrefix(body, "axiom")), i + 1})
				cur = nil
				continue
			}
			if cur == nil {
				return nil, nil, nil, fmt.Errorf("%s:%d: clause outside a func block", path, i+1)
			}
			cur.lines = append(cur.lines, rawLine{body, i + 1})
		} else {
			if cur == nil || len(cur.lines) == 0 {
				return nil, nil, nil, fmt.Errorf("%s:%d: continuation without clause", path, i+1)
			}
			cur.lines[len(cur.lines)-1].text += " " + body
		}
	}
	return imports, raws, fileDirectives, nil
}

const genName = "zz_lncvc_contracts_gen.go"
const contractFile = "verif_contracts.go"

func LoadCtx(repo string, pkgDirs []string) (*VerifCtx, error) {
	c := &VerifCtx{repo: repo, pkgDirs: pkgDirs, contracts: map[*ssa.Function]*Contract{}, byName: map[string]*Contract{},
		implCache: map[string][]implInfo{}, usedModels: map[string]int{}, srcCache: map[string][]byte{},
		closed: map[types.Object]bool{}, specDecls: map[types.Object]*ast.FuncDecl{}, infoOf: map[*types.Package]*types.Info{},
		pkgOf: map[*types.Package]*packages.Package{}, genFiles: map[string]string{}, decls: map[*types.Func]*ast.FuncDecl{},
		fieldDisc: map[string]fieldDiscipline{}, lockRank: map[string]int{}, calledContracts: map[string]int{}, lockSlots: map[string]bool{}, axioms: map[*types.Package]*Contract{}}
	overlay := map[string][]byte{}
	type pending struct {
		dir  string
		raws []*rawContract
		cs   []*Contract
		path string
	}
	var pend []*pending
	for _, d := range pkgDirs {
		dir := filepath.Join(repo, d)
		cf := filepath.Join(dir, contractFile)
		if _, err := os.Stat(cf); err != nil {
			continue
		}
		imports, raws, dirs, err := parseContractFile(cf)
		if err != nil {
			return nil, err
		}
		for _, dl := range dirs {
			c.parseDirective(dl.text)
		}
		p := &pending{dir: dir, raws: raws, path: cf}
		var sb strings.Builder
		sb.WriteString("//go:build verif\n\npackage " + filepath.Base(d) + "\n\n")
		for _, im := range imports {
			sb.WriteString("import " + im + "\n")
		}
		sb.WriteString("\nfunc __requires(int, bool) {}\nfunc __ensures(int, bool) {}\nfunc __modifies(int, ...any) {}\n\n")
		for _, rc := range raws {
			ct, stub, err := buildStub(rc, cf)
			if err != nil {
				return nil, err
			}
			p.cs = append(p.cs, ct)
			sb.WriteString(stub)
		}
		overlay[filepath.Join(dir, genName)] = []byte(sb.String())
		c.genFiles[filepath.Join(dir, genName)] = sb.String()
		pend = append(pend, p)
	}
	cfg := &packages.Config{
		Mode:       packages.LoadSyntax,
		BuildFlags: []string{"-tags=verif"},
		Env:        append(os.Environ(), "GOFLAGS=-mod=mod", "GOPROXY=off", "GOTOOLCHAIN=auto"),
		Overlay:    overlay,
	}
	c.fset = token.NewFileSet()
	cfg.Fset = c.fset
	// One load, so that all analysed packages live in one type universe and
	// cross-package calls (mailbox -> gbn) see the callee's contracts: mailbox's
	// go.mod replaces the gbn module by ../gbn, so loading from the mailbox
	// directory compiles /repo/gbn from source (with the verif tag and overlay).
	hasMailbox := false
	for _, d := range pkgDirs {
		if filepath.Base(d) == "mailbox" {
			hasMailbox = true
		}
	}
	var loads [][]string // dir, patterns...
	if hasMailbox {
		pats := []string{filepath.Join(repo, "mailbox"), ".", "github.com/kkdai/bstream"}
		for _, d := range pkgDirs {
			if filepath.Base(d) == "gbn" {
				pats = append(pats, "github.com/lightninglabs/lightning-node-connect/gbn")
			}
		}
		loads = append(loads, pats)
	} else {
		for _, d := range pkgDirs {
			loads = append(loads, []string{filepath.Join(repo, d), "."})
		}
	}
	for _, ld := range loads {
		cfg.Dir = ld[0]
		pkgs, err := packages.Load(cfg, ld[1:]...)
		if err != nil {
			return nil, err
		}
		for _, p := range pkgs {
			var hard []string
			for _, e := range p.Errors {
				if strings.Contains(e.Msg, "imported and not used") || strings.Contains(e.Msg, "declared and not used") {
					continue
				}
				hard = append(hard, e.Error())
			}
			if len(hard) > 0 {
				return nil, fmt.Errorf("package %s does not type-check with contracts:\n  %s", p.PkgPath, strings.Join(hard, "\n  "))
			}
		}
		c.pkgs = append(c.pkgs, pkgs...)
	}
	packages.Visit(c.pkgs, nil, func(p *packages.Package) {
		if p.Types != nil {
			c.infoOf[p.Types] = p.TypesInfo
			c.pkgOf[p.Types] = p
		}
	})
	prog, spkgs := ssautil.Packages(c.pkgs, ssa.NaiveForm|ssa.GlobalDebug|ssa.InstantiateGenerics)
	prog.Build()
	c.prog = prog
	for _, sp := range spkgs {
		if sp != nil && sp.Pkg.Path() != "github.com/kkdai/bstream" {
			c.rootPkgs = append(c.rootPkgs, sp)
		}
	}
	c.indexGoroutineLocks()
	// index declarations, close() sites
	for _, p := range c.pkgs {
		for _, f := range p.Syntax {
			for _, d := range f.Decls {
				if fd, ok := d.(*ast.FuncDecl); ok {
					if obj, ok := p.TypesInfo.Defs[fd.Name].(*types.Func); ok {
						c.decls[obj] = fd
					}
				}
			}
			ast.Inspect(f, func(n ast.Node) bool {
				call, ok := n.(*ast.CallExpr)
				if !ok {
					return true
				}
				if id, ok := call.Fun.(*ast.Ident); ok && id.Name == "close" && len(call.Args) == 1 {
					if _, isB := p.TypesInfo.Uses[id].(*types.Builtin); isB {
						switch a := call.Args[0].(type) {
						case *ast.Ident:
							if o := p.TypesInfo.Uses[a]; o != nil {
								c.closed[o] = true
							}
						case *ast.SelectorExpr:
							if s := p.TypesInfo.Selections[a]; s != nil {
								c.closed[s.Obj()] = true
							}
						default:
							c.closedAny = true
						}
					}
				}
				return true
			})
		}
	}
	// bind contracts
	for i, p := range pend {
		var pkg *packages.Package
		for _, cand := range c.pkgs {
			if len(cand.GoFiles) > 0 && filepath.Dir(cand.GoFiles[0]) == p.dir {
				pkg = cand
			}
		}
		_ = i
		if pkg == nil {
			return nil, fmt.Errorf("package in %s was not loaded", p.dir)
		}
		var genAst *ast.File
		for _, f := range pkg.Syntax {
			if filepath.Base(c.fset.Position(f.Pos()).Filename) == genName {
				genAst = f
			}
		}
		if genAst == nil {
			return nil, fmt.Errorf("generated contract stubs were not loaded for %s", p.dir)
		}
		stubs := map[string]*ast.FuncDecl{}
		for _, d := range genAst.Decls {
			if fd, ok := d.(*ast.FuncDecl); ok {
				stubs[stubKey(fd)] = fd
			}
		}
		spkg := c.prog.Package(pkg.Types)
		for _, ct := range p.cs {
			key := ct.RecvType + "." + ct.Name + "__lncvc"
			st := stubs[key]
			if st == nil {
				return nil, fmt.Errorf("%s:%d: no stub for %s", ct.File, ct.Line, key)
			}
			ct.Stub = st
			ct.StubObj = pkg.TypesInfo.Defs[st.Name].(*types.Func)
			if ct.Name == "lncvcAxioms" {
				for _, s := range st.Body.List {
					if es, ok := s.(*ast.ExprStmt); ok {
						if call, ok := es.X.(*ast.CallExpr); ok {
							idx, _ := strconv.Atoi(call.Args[0].(*ast.BasicLit).Value)
							ct.Clauses[idx].Exprs = call.Args[1:]
						}
					}
				}
				c.axioms[pkg.Types] = ct
				continue
			}
			// the real function
			var fn *ssa.Function
			if ct.RecvType == "" {
				fn = spkg.Func(ct.Name)
			} else {
				tn := spkg.Type(strings.TrimPrefix(ct.RecvType, "*"))
				if tn == nil {
					return nil, fmt.Errorf("%s:%d: unknown receiver type %s", ct.File, ct.Line, ct.RecvType)
				}
				var rt types.Type = tn.Type()
				if strings.HasPrefix(ct.RecvType, "*") {
					rt = types.NewPointer(rt)
				}
				sel := c.prog.MethodSets.MethodSet(rt).Lookup(pkg.Types, ct.Name)
				if sel != nil {
					fn = c.prog.MethodValue(sel)
				}
			}
			if fn == nil {
				return nil, fmt.Errorf("%s:%d: contract for unknown function %s (the function was renamed or removed)", ct.File, ct.Line, ct.Header)
			}
			// signatures must agree
			realSig := fn.Signature
			stubSig := ct.StubObj.Type().(*types.Signature)
			if !sameParams(realSig.Params(), stubSig.Params()) || !sameParams(realSig.Results(), stubSig.Results()) {
				return nil, fmt.Errorf("%s:%d: contract header %q does not match the signature %s", ct.File, ct.Line, ct.Header, realSig)
			}
			ct.Fn = fn
			if obj, ok := fn.Object().(*types.Func); ok {
				ct.Decl = c.decls[obj]
			}
			// collect typed clause expressions from the stub body
			for _, s := range st.Body.List {
				es, ok := s.(*ast.ExprStmt)
				if !ok {
					continue
				}
				call, ok := es.X.(*ast.CallExpr)
				if !ok {
					continue
				}
				id, ok := call.Fun.(*ast.Ident)
				if !ok {
					continue
				}
				idx, _ := strconv.Atoi(call.Args[0].(*ast.BasicLit).Value)
				switch id.Name {
				case "__requires", "__ensures", "__modifies":
					ct.Clauses[idx].Exprs = call.Args[1:]
				}
			}
			c.contracts[fn] = ct
			c.byName[contractName(ct)] = ct
		}
	}
	return c, nil
}

func contractName(ct *Contract) string {
	if ct.RecvType == "" {
		return ct.Name
	}
	return strings.TrimPrefix(ct.RecvType, "*") + "." + ct.Name
}

func indexOfDir(dirs []string, dir, repo string) int {
	for i, d := range dirs {
		if filepath.Join(repo, d) == dir {
			return i
		}
	}
	return 0
}

func sameParams(a, b *types.Tuple) bool {
	if a.Len() != b.Len() {
		return false
	}
	for i := 0; i < a.Len(); i++ {
		if !types.Identical(a.At(i).Type(), b.At(i).Type()) {
			return false
		}
	}
	return true
}

func stubKey(fd *ast.FuncDecl) string {
	recv := ""
	if fd.Recv != nil && len(fd.Recv.List) == 1 {
		var sb bytes.Buffer
		printer.Fprint(&sb, token.NewFileSet(), fd.Recv.List[0].Type)
		recv = sb.String()
	}
	return recv + "." + fd.Name.Name
}

// buildStub turns one //@ func block into a Contract and a typed Go stub.
func buildStub(rc *rawContract, file string) (*Contract, string, error) {
	src := "package p\n" + rc.header + " {}\n"
	fs := token.NewFileSet()
	f, err := parser.ParseFile(fs, "hdr.go", src, 0)
	if err != nil {
		return nil, "", fmt.Errorf("%s:%d: bad contract header %q: %v", file, rc.line, rc.header, err)
	}
	fd := f.Decls[0].(*ast.FuncDecl)
	ct := &Contract{Header: rc.header, Name: fd.Name.Name, File: file, Line: rc.line, Extra: map[string][]string{}}
	if fd.Recv != nil {
		var sb bytes.Buffer
		printer.Fprint(&sb, fs, fd.Recv.List[0].Type)
		ct.RecvType = sb.String()
	}
	// all results must be named so that contracts can refer to them
	if fd.Type.Results != nil {
		for _, r := range fd.Type.Results.List {
			if len(r.Names) == 0 {
				return nil, "", fmt.Errorf("%s:%d: results in a contract header must be named", file, rc.line)
			}
		}
	}
	var body strings.Builder
	for _, l := range rc.lines {
		kw := clauseKW.FindString(l.text)
		rest := strings.TrimSpace(strings.TrimPrefix(l.text, kw))
		switch kw {
		case "props":
			ct.Props = strings.Fields(rest)
		case "pointsonly":
			// carries only `at` assertions: always inlined, never verified on its own
			ct.Inline = true
			ct.PointsOnly = true
		case "inline":
			ct.Inline = true
		case "unfolds":
			// unfolds F G: calls of these functions are executed by their bodies
			// here, not replaced by their (trusted) contracts
			ct.Unfolds = append(ct.Unfolds, strings.Fields(rest)...)
		case "trusted":
			ct.Trusted = true
		case "pure":
			ct.Pure = true
		case "noframe":
			ct.NoFrame = true
		case "withinit":
			ct.WithInit = true
		case "exclusive":
			ct.Exclusive = true
		case "acquires":
			for _, f := range strings.FieldsFunc(rest, func(r rune) bool { return r == ',' || r == ' ' }) {
				ct.Acquires = append(ct.Acquires, f)
			}
		case "role":
			ct.Role = rest
		case "replay":
			ct.Replay = rest
		case "requires", "ensures", "modifies":
			var cprops []string
			if strings.HasPrefix(rest, "@") {
				sp := strings.SplitN(rest, " ", 2)
				cprops = strings.Split(strings.TrimPrefix(sp[0], "@"), ",")
				rest = strings.TrimSpace(sp[1])
			}
			cl := &Clause{Kind: kw, Text: rest, Line: l.line, File: file, Index: len(ct.Clauses), Props: cprops}
			ct.Clauses = append(ct.Clauses, cl)
			fmt.Fprintf(&body, "\t__%s(%d, %s)\n", kw, cl.Index, rest)
		case "loop", "label":
			parts := strings.Fields(rest)
			if len(parts) < 3 {
				return nil, "", fmt.Errorf("%s:%d: bad loop clause", file, l.line)
			}
			ls := &LoopSpec{Kind: parts[1], Loop: -1, Line: l.line, File: file, Index: len(ct.Loops)}
			if kw == "loop" {
				n, err := strconv.Atoi(parts[0])
				if err != nil {
					return nil, "", fmt.Errorf("%s:%d: bad loop ordinal", file, l.line)
				}
				ls.Loop = n
			} else {
				ls.Label = parts[0]
			}
			ls.Text = strings.TrimSpace(strings.SplitN(rest, parts[1], 2)[1])
			if strings.HasPrefix(ls.Text, "@") {
				sp := strings.SplitN(ls.Text, " ", 2)
				ls.Props = strings.Split(strings.TrimPrefix(sp[0], "@"), ",")
				ls.Text = strings.TrimSpace(sp[1])
			}
			ct.Loops = append(ct.Loops, ls)
		case "at":
			// at "source text" assert <expr>  |  at "source text" assume-unreachable
			m := atRe.FindStringSubmatch(rest)
			if m == nil {
				return nil, "", fmt.Errorf("%s:%d: bad at clause (want: at \"source text\" assert <expr>)", file, l.line)
			}
			ps := &PointSpec{Pattern: m[1], Text: strings.TrimSpace(m[4]), Line: l.line, File: file, Index: len(ct.Points), Assume: m[3] == "assume"}
			if m[2] != "" {
				ps.Occurrence, _ = strconv.Atoi(m[2])
			}
			if strings.HasPrefix(ps.Text, "@") {
				sp := strings.SplitN(ps.Text, " ", 2)
				ps.Props = strings.Split(strings.TrimPrefix(sp[0], "@"), ",")
				ps.Text = strings.TrimSpace(sp[1])
			}
			ct.Points = append(ct.Points, ps)
		default:
			ct.Extra[kw] = append(ct.Extra[kw], rest)
		}
	}
	hdr := strings.Replace(rc.header, fd.Name.Name+"(", fd.Name.Name+"__lncvc(", 1)
	stub := fmt.Sprintf("// contract stub for %s (%s:%d)\n%s {\n%s\treturn\n}\n\n", rc.header, filepath.Base(file), rc.line, hdr, body.String())
	return ct, stub, nil
}

func (c *VerifCtx) parseDirective(text string) {
	// field <Type>.<field> guarded_by <mutex> | atomic | immutable | owned_by <role> | chan
	// lockorder <Type.mutex> < <Type.mutex> < ...
	f := strings.Fields(text)
	switch f[0] {
	case "field":
		if len(f) >= 3 {
			d := fieldDiscipline{Kind: f[2]}
			if len(f) >= 4 {
				d.Arg = f[3]
			}
			c.fieldDisc[f[1]] = d
		}
	case "chan":
		// chan <Type>.<field> closeonly : channel discipline of a field that also
		// has an access discipline (guarded_by ...) declared with `field`
		if len(f) >= 3 {
			if c.chanKinds == nil {
				c.chanKinds = map[string]string{}
			}
			c.chanKinds[f[1]] = f[2]
		}
	case "extern":
		// extern <callee substring> nonnil : results of this unmodelled callee are non-nil
		if len(f) >= 3 {
			c.externs = append(c.externs, [2]string{f[1], f[2]})
		}
	case "lockorder":
		rank := 1
		for _, x := range f[1:] {
			if x == "<" {
				continue
			}
			c.lockRank[x] = rank
			rank++
		}
	}
}

func (c *VerifCtx) contractFor(fn *ssa.Function) *Contract {
	if fn == nil {
		return nil
	}
	if fn.Origin() != nil {
		fn = fn.Origin()
	}
	return c.contracts[fn]
}

// inlinable: bodies from the analysed packages and from small dependencies.
func (c *VerifCtx) inlinable(fn *ssa.Function) bool {
	if fn.Pkg == nil {
		// anonymous functions / instantiations / wrappers
		if fn.Parent() != nil {
			return c.inlinable(fn.Parent())
		}
		if o := fn.Origin(); o != nil {
			return c.inlinable(o)
		}
		return fn.Synthetic != ""
	}
	for _, p := range c.rootPkgs {
		if fn.Pkg == p {
			return true
		}
	}
	switch fn.Pkg.Pkg.Path() {
	case "github.com/kkdai/bstream", "math/bits":
		return true
	}
	return false
}

// mayBeClosed: whether the channel expression can denote a channel that some
// close() in the analysed packages closes.
func (c *VerifCtx) mayBeClosed(v ssa.Value) bool {
	if c.closedAny {
		return true
	}
	switch x := v.(type) {
	case *ssa.UnOp:
		if x.Op == token.MUL {
			switch a := x.X.(type) {
			case *ssa.FieldAddr:
				st := a.X.Type().Underlying().(*types.Pointer).Elem().Underlying().(*types.Struct)
				return c.closed[st.Field(a.Field)]
			case *ssa.Alloc:
				// local variable: look for its object through the debug refs
				for obj := range c.closed {
					if obj.Name() == a.Comment {
						return true
					}
				}
				return false
			case *ssa.FreeVar:
				for obj := range c.closed {
					if obj.Name() == a.Name() {
						return true
					}
				}
				return false
			}
		}
	case *ssa.MakeChan:
		return false
	}
	return true
}

// chanDisc: declared discipline of the channel-typed struct field the channel
// value was loaded from ("" if none).
func (c *VerifCtx) chanDisc(v ssa.Value) string {
	// a getter method that returns a channel field (Done() returns c.quit)
	if call, isCall := v.(*ssa.Call); isCall {
		if f := call.Call.StaticCallee(); f != nil && len(f.Blocks) == 1 {
			for _, ins := range f.Blocks[0].Instrs {
				if ret, isRet := ins.(*ssa.Return); isRet && len(ret.Results) == 1 {
					r := ret.Results[0]
					if ct, isCT := r.(*ssa.ChangeType); isCT {
						r = ct.X
					}
					if mi, isMI := r.(*ssa.Convert); isMI {
						r = mi.X
					}
					// naive-form SSA returns through a result cell: follow its only store
					if ld, isLd := r.(*ssa.UnOp); isLd && ld.Op == token.MUL {
						if al, isAl := ld.X.(*ssa.Alloc); isAl {
							var stored ssa.Value
							n := 0
							for _, b := range f.Blocks {
								for _, in2 := range b.Instrs {
									if st, isSt := in2.(*ssa.Store); isSt && st.Addr == al {
										stored = st.Val
										n++
									}
								}
							}
							if n == 1 {
								r = stored
								if ct, isCT := r.(*ssa.ChangeType); isCT {
									r = ct.X
								}
							}
						}
					}
					return c.chanDisc(r)
				}
			}
		}
		return ""
	}
	u, ok := v.(*ssa.UnOp)
	if !ok || u.Op != token.MUL {
		return ""
	}
	fa, ok := u.X.(*ssa.FieldAddr)
	if !ok {
		return ""
	}
	pt, ok := fa.X.Type().Underlying().(*types.Pointer)
	if !ok {
		return ""
	}
	nt, ok := types.Unalias(pt.Elem()).(*types.Named)
	if !ok {
		return ""
	}
	st := nt.Underlying().(*types.Struct)
	if k := c.chanKinds[nt.Obj().Name()+"."+st.Field(fa.Field).Name()]; k != "" {
		return k
	}
	return c.fieldDisc[nt.Obj().Name()+"."+st.Field(fa.Field).Name()].Kind
}

// fieldName: "Type.field" of the struct field a value was loaded from.
func (c *VerifCtx) fieldName(v ssa.Value) string {
	u, ok := v.(*ssa.UnOp)
	if !ok || u.Op != token.MUL {
		return "?"
	}
	fa, ok := u.X.(*ssa.FieldAddr)
	if !ok {
		return "?"
	}
	pt, ok := fa.X.Type().Underlying().(*types.Pointer)
	if !ok {
		return "?"
	}
	nt, ok := types.Unalias(pt.Elem()).(*types.Named)
	if !ok {
		return "?"
	}
	return nt.Obj().Name() + "." + nt.Underlying().(*types.Struct).Field(fa.Field).Name()
}

// isSink: the called function value is loaded from a struct field declared
// `field T.f sink`: byte-slice arguments are appended to the ghost wire log.
func (c *VerifCtx) isSink(v ssa.Value) bool {
	u, ok := v.(*ssa.UnOp)
	if !ok || u.Op != token.MUL {
		return false
	}
	fa, ok := u.X.(*ssa.FieldAddr)
	if !ok {
		return false
	}
	pt, ok := fa.X.Type().Underlying().(*types.Pointer)
	if !ok {
		return false
	}
	nt, ok := types.Unalias(pt.Elem()).(*types.Named)
	if !ok {
		return false
	}
	st := nt.Underlying().(*types.Struct)
	d, ok := c.fieldDisc[nt.Obj().Name()+"."+st.Field(fa.Field).Name()]
	return ok && d.Kind == "sink"
}

func (c *VerifCtx) sourceAt(p token.Pos) string {
	pos := c.fset.Position(p)
	data, ok := c.srcCache[pos.Filename]
	if !ok {
		if g, isGen := c.genFiles[pos.Filename]; isGen {
			data = []byte(g)
		} else {
			data, _ = os.ReadFile(pos.Filename)
		}
		c.srcCache[pos.Filename] = data
	}
	lines := bytes.Split(data, []byte("\n"))
	if pos.Line-1 >= len(lines) || pos.Line < 1 {
		return "?"
	}
	ln := string(lines[pos.Line-1])
	col := pos.Column - 1
	if col > len(ln) {
		col = len(ln)
	}
	// take a balanced expression-ish prefix of the rest of the line
	rest := strings.TrimSpace(ln[col:])
	// extend left to the start of the operand (identifier chars, dots, brackets)
	left := col
	for left > 0 {
		ch := ln[left-1]
		if ch == '_' || ch == '.' || ch == ']' || ch == ')' || (ch >= 'a' && ch <= 'z') || (ch >= 'A' && ch <= 'Z') || (ch >= '0' && ch <= '9') {
			left--
			continue
		}
		break
	}
	txt := strings.TrimSpace(ln[left:col]) + rest
	if len(txt) > 60 {
		txt = txt[:60]
	}
	return strings.TrimSpace(txt)
}

// loopSpecs returns the typed loop clauses of the contract of fn for loop li.
func (c *VerifCtx) loopSpecs(fn *ssa.Function, li *loopInfo) []*LoopSpec {
	ct := c.contractFor(fn)
	if ct == nil {
		return nil
	}
	var out []*LoopSpec
	for _, ls := range ct.Loops {
		if (li.ordinal >= 0 && ls.Loop == li.ordinal) || (li.ordinal < 0 && ls.Label != "" && strings.Contains(li.label, ls.Label)) {
			if !ls.checked {
				if err := c.typeLoopSpec(ct, ls, li); err != nil {
					panic(fmt.Errorf("%s:%d: %v", ls.File, ls.Line, err))
				}
			}
			if ls.Kind == "unroll" {
				continue
			}
			out = append(out, ls)
		}
	}
	return out
}

// typeLoopSpec type-checks a loop clause in the scope of the loop body.
func (c *VerifCtx) typeLoopSpec(ct *Contract, ls *LoopSpec, li *loopInfo) error {
	ls.checked = true
	if ls.Kind == "unroll" {
		return nil
	}
	if ct.Decl == nil {
		return fmt.Errorf("no syntax for %s", ct.Header)
	}
	var pos token.Pos
	if li.ordinal >= 0 {
		n := 0
		ast.Inspect(ct.Decl.Body, func(nd ast.Node) bool {
			switch x := nd.(type) {
			case *ast.FuncLit:
				return false
			case *ast.ForStmt:
				if n == li.ordinal {
					pos = x.Body.Lbrace + 1
					if ls.Kind == "step" {
						// step clauses relate the start and the end of one iteration:
						// the variables declared in the body are in scope
						pos = x.Body.Rbrace
					}
				}
				n++
			case *ast.RangeStmt:
				if n == li.ordinal {
					pos = x.Body.Lbrace + 1
					if ls.Kind == "step" {
						pos = x.Body.Rbrace
					}
				}
				n++
			}
			return true
		})
	} else {
		ast.Inspect(ct.Decl.Body, func(nd ast.Node) bool {
			if l, ok := nd.(*ast.LabeledStmt); ok && strings.Contains(li.label, l.Label.Name) {
				pos = l.Stmt.Pos()
			}
			return true
		})
	}
	if !pos.IsValid() {
		return fmt.Errorf("cannot locate %s in %s", loopName(li), ct.Header)
	}
	ls.Pos = pos
	pkg := ct.Fn.Pkg.Pkg
	expr, err := parser.ParseExprFrom(c.fset, fmt.Sprintf("%s:%d", filepath.Base(ls.File), ls.Line), ls.Text, 0)
	if err != nil {
		return err
	}
	info := &types.Info{Types: map[ast.Expr]types.TypeAndValue{}, Uses: map[*ast.Ident]types.Object{}, Defs: map[*ast.Ident]types.Object{},
		Selections: map[*ast.SelectorExpr]*types.Selection{}, Instances: map[*ast.Ident]types.Instance{}}
	if err := types.CheckExpr(c.fset, pkg, pos, expr, info); err != nil {
		return err
	}
	ls.Expr = expr
	ls.Info = info
	return nil
}

func sortedKeys(m map[string]int) []string {
	var ks []string
	for k := range m {
		ks = append(ks, k)
	}
	sort.Strings(ks)
	return ks
}

// pointSpecs resolves the `at` clauses of ct to source lines (once).
func (c *VerifCtx) pointSpecs(ct *Contract) []*PointSpec {
	if ct == nil || len(ct.Points) == 0 || ct.Decl == nil {
		return nil
	}
	for _, ps := range ct.Points {
		if ps.ready {
			continue
		}
		ps.ready = true
		start := c.fset.Position(ct.Decl.Pos())
		end := c.fset.Position(ct.Decl.End())
		data, _ := os.ReadFile(start.Filename)
		lines := strings.Split(string(data), "\n")
		pat := strings.ReplaceAll(ps.Pattern, "\\\"", "\"")
		hit := 0
		for ln := start.Line; ln <= end.Line && ln <= len(lines); ln++ {
			if strings.Contains(lines[ln-1], pat) {
				hit++
				if ps.Occurrence == 0 || hit == ps.Occurrence {
					ps.SrcLine = ln
				}
			}
		}
		if (ps.Occurrence == 0 && hit != 1) || (ps.Occurrence > 0 && hit < ps.Occurrence) {
			// the statement the assertion was anchored to is gone (or ambiguous):
			// the assertion cannot be checked - reported as a failed obligation
			ps.Missing = fmt.Sprintf("the pattern %q occurs on %d lines of %s (the code it was anchored to changed)", ps.Pattern, hit, ct.Header)
			ps.SrcLine = -1
			continue
		}
		ps.SrcFile = start.Filename
		tf := c.fset.File(ct.Decl.Pos())
		ps.Pos = tf.LineStart(ps.SrcLine)
		// a position inside the statement on that line: first non-blank column
		ltxt := lines[ps.SrcLine-1]
		indent := len(ltxt) - len(strings.TrimLeft(ltxt, " \t"))
		ps.Pos += token.Pos(indent)
		expr, err := parser.ParseExprFrom(c.fset, fmt.Sprintf("%s:%d", filepath.Base(ps.File), ps.Line), ps.Text, 0)
		if err != nil {
			panic(fmt.Errorf("%s:%d: %v", ps.File, ps.Line, err))
		}
		info := &types.Info{Types: map[ast.Expr]types.TypeAndValue{}, Uses: map[*ast.Ident]types.Object{}, Defs: map[*ast.Ident]types.Object{},
			Selections: map[*ast.SelectorExpr]*types.Selection{}, Instances: map[*ast.Ident]types.Instance{}}
		if err := types.CheckExpr(c.fset, ct.Fn.Pkg.Pkg, ps.Pos, expr, info); err != nil {
			// the statement the assertion is anchored to no longer has the
			// variables it talks about in scope: it cannot be checked there
			ps.Missing = fmt.Sprintf("the assertion does not type-check at its anchor any more (%v)", err)
			ps.SrcLine = -1
			continue
		}
		ps.Expr, ps.Info = expr, info
	}
	return ct.Points
}

// indexGoroutineLocks scans every goroutine literal (go func(){...}()) of the
// analysed packages: the WaitGroup fields it signals with Done and the mutex
// fields it locks. Waiting on such a WaitGroup while holding one of those
// mutexes can deadlock (the goroutine may be blocked on the mutex).
func (c *VerifCtx) indexGoroutineLocks() {
	c.wgLocks = map[string]map[string]bool{}
	fieldKey := func(v ssa.Value) string {
		fa, ok := v.(*ssa.FieldAddr)
		if !ok {
			return ""
		}
		pt, ok := fa.X.Type().Underlying().(*types.Pointer)
		if !ok {
			return ""
		}
		nt, ok := types.Unalias(pt.Elem()).(*types.Named)
		if !ok {
			return ""
		}
		st, ok := nt.Underlying().(*types.Struct)
		if !ok {
			return ""
		}
		return nt.Obj().Name() + "." + st.Field(fa.Field).Name()
	}
	var scanBody func(fn *ssa.Function, wgs, mus map[string]bool)
	scanBody = func(fn *ssa.Function, wgs, mus map[string]bool) {
		for _, b := range fn.Blocks {
			for _, ins := range b.Instrs {
				var cc *ssa.CallCommon
				switch x := ins.(type) {
				case *ssa.Call:
					cc = &x.Call
				case *ssa.Defer:
					cc = &x.Call
				}
				if cc == nil || cc.IsInvoke() {
					continue
				}
				f := cc.StaticCallee()
				if f == nil || len(cc.Args) == 0 {
					continue
				}
				switch f.String() {
				case "(*sync.WaitGroup).Done":
					if k := fieldKey(cc.Args[0]); k != "" {
						wgs[k] = true
					}
				case "(*sync.Mutex).Lock", "(*sync.RWMutex).Lock", "(*sync.RWMutex).RLock":
					if k := fieldKey(cc.Args[0]); k != "" {
						mus[k] = true
					}
				}
			}
		}
		for _, af := range fn.AnonFuncs {
			scanBody(af, wgs, mus)
		}
	}
	var visit func(fn *ssa.Function)
	visit = func(fn *ssa.Function) {
		for _, b := range fn.Blocks {
			for _, ins := range b.Instrs {
				g, ok := ins.(*ssa.Go)
				if !ok {
					continue
				}
				mc, ok := g.Call.Value.(*ssa.MakeClosure)
				if !ok {
					continue
				}
				wgs, mus := map[string]bool{}, map[string]bool{}
				scanBody(mc.Fn.(*ssa.Function), wgs, mus)
				for w := range wgs {
					if c.wgLocks[w] == nil {
						c.wgLocks[w] = map[string]bool{}
					}
					for m := range mus {
						c.wgLocks[w][m] = true
					}
				}
			}
		}
		for _, af := range fn.AnonFuncs {
			visit(af)
		}
	}
	for _, sp := range c.rootPkgs {
		for _, mem := range sp.Members {
			switch x := mem.(type) {
			case *ssa.Function:
				visit(x)
			case *ssa.Type:
				for _, t := range []types.Type{x.Type(), types.NewPointer(x.Type())} {
					ms := c.prog.MethodSets.MethodSet(t)
					for i := 0; i < ms.Len(); i++ {
						if f := c.prog.MethodValue(ms.At(i)); f != nil && f.Pkg == sp {
							visit(f)
						}
					}
				}
			}
		}
	}
}
