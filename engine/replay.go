package main

// Replay of a counterexample on the real code: an in-package test, injected
// with `go test -overlay` (nothing is written into /repo), rebuilds the
// pre-state from the solver model, checks that it satisfies the requires
// clauses, calls the real function and evaluates the violated clause / observes
// the panic.

import (
	"bytes"
	"encoding/json"
	"fmt"
	"go/ast"
	"go/printer"
	"go/token"
	"go/types"
	"os"
	"os/exec"
	"path/filepath"
	"sort"
	"strconv"
	"strings"
	"time"
)

type ReplayResult struct {
	Attempted  bool
	Reproduced bool
	Output     string
	Test       string
	Why        string
}

func parseModelValue(v string) (uint64, bool) {
	v = strings.TrimSpace(v)
	switch {
	case v == "true":
		return 1, true
	case v == "false":
		return 0, true
	case strings.HasPrefix(v, "#x"):
		if len(v) > 18 {
			return 0, false
		}
		n, err := strconv.ParseUint(v[2:], 16, 64)
		return n, err == nil
	case strings.HasPrefix(v, "#b"):
		if len(v) > 66 {
			return 0, false
		}
		n, err := strconv.ParseUint(v[2:], 2, 64)
		return n, err == nil
	}
	return 0, false
}

func astText(e ast.Expr) string {
	var sb bytes.Buffer
	printer.Fprint(&sb, token.NewFileSet(), e)
	return sb.String()
}

// hoistOld replaces old(e) by fresh identifiers and returns the definitions.
func hoistOld(e ast.Expr, defs *[]string, n *int) ast.Expr {
	var rewrite func(x ast.Expr) ast.Expr
	rewrite = func(x ast.Expr) ast.Expr {
		switch v := x.(type) {
		case *ast.CallExpr:
			if id := calleeIdent(v.Fun); id != nil && id.Name == "old" && len(v.Args) == 1 {
				name := fmt.Sprintf("old_%d", *n)
				*n++
				*defs = append(*defs, fmt.Sprintf("%s := %s", name, astText(v.Args[0])))
				return ast.NewIdent(name)
			}
			nc := *v
			nc.Args = make([]ast.Expr, len(v.Args))
			for i, a := range v.Args {
				nc.Args[i] = rewrite(a)
			}
			return &nc
		case *ast.BinaryExpr:
			nb := *v
			nb.X, nb.Y = rewrite(v.X), rewrite(v.Y)
			return &nb
		case *ast.UnaryExpr:
			nu := *v
			nu.X = rewrite(v.X)
			return &nu
		case *ast.ParenExpr:
			np := *v
			np.X = rewrite(v.X)
			return &np
		case *ast.SelectorExpr:
			ns := *v
			ns.X = rewrite(v.X)
			return &ns
		case *ast.IndexExpr:
			ni := *v
			ni.X, ni.Index = rewrite(v.X), rewrite(v.Index)
			return &ni
		case *ast.FuncLit:
			// old() inside quantifier bodies: rewrite statements' expressions
			nf := *v
			body := *v.Body
			body.List = nil
			for _, s := range v.Body.List {
				switch st := s.(type) {
				case *ast.ReturnStmt:
					nr := *st
					nr.Results = make([]ast.Expr, len(st.Results))
					for i, r := range st.Results {
						nr.Results[i] = rewrite(r)
					}
					body.List = append(body.List, &nr)
				default:
					body.List = append(body.List, s)
				}
			}
			nf.Body = &body
			return &nf
		}
		return x
	}
	return rewrite(e)
}

func usesQuantOld(e ast.Expr) bool {
	// old(...) of an expression that mentions a quantifier-bound variable cannot be hoisted
	found := false
	ast.Inspect(e, func(n ast.Node) bool {
		if fl, ok := n.(*ast.FuncLit); ok {
			bound := map[string]bool{}
			for _, p := range fl.Type.Params.List {
				for _, nm := range p.Names {
					bound[nm.Name] = true
				}
			}
			ast.Inspect(fl.Body, func(m ast.Node) bool {
				if c, ok := m.(*ast.CallExpr); ok {
					if id := calleeIdent(c.Fun); id != nil && id.Name == "old" {
						ast.Inspect(c.Args[0], func(k ast.Node) bool {
							if i, ok := k.(*ast.Ident); ok && bound[i.Name] {
								found = true
							}
							return true
						})
					}
				}
				return true
			})
		}
		return true
	})
	return found
}

const replayRuntime = `
func lncvcHex(m map[string]uint64, k string) (uint64, bool) { v, ok := m[k]; return v, ok }

var lncvcObjs = map[string]reflect.Value{}

func lncvcSet(f reflect.Value, v reflect.Value) {
	if !v.IsValid() {
		return
	}
	if f.CanSet() {
		f.Set(v)
		return
	}
	reflect.NewAt(f.Type(), unsafe.Pointer(f.UnsafeAddr())).Elem().Set(v)
}

// lncvcBuild reconstructs a value of type t from the model entries under name.
func lncvcBuild(t reflect.Type, name string, m map[string]uint64, depth int) reflect.Value {
	switch t.Kind() {
	case reflect.Bool:
		v := reflect.New(t).Elem()
		v.SetBool(m[name] != 0)
		return v
	case reflect.Int, reflect.Int8, reflect.Int16, reflect.Int32, reflect.Int64:
		v := reflect.New(t).Elem()
		v.SetInt(int64(m[name]))
		return v
	case reflect.Uint, reflect.Uint8, reflect.Uint16, reflect.Uint32, reflect.Uint64, reflect.Uintptr:
		v := reflect.New(t).Elem()
		v.SetUint(m[name])
		return v
	case reflect.Ptr:
		ref, ok := m[name]
		if !ok || ref == 0 || depth < 0 {
			if lncvcNonNil[name] && t.Elem().Kind() == reflect.Struct {
				return reflect.New(t.Elem())
			}
			return reflect.Zero(t)
		}
		key := fmt.Sprintf("%s@%d", t.String(), ref)
		if o, ok := lncvcObjs[key]; ok {
			return o
		}
		p := reflect.New(t.Elem())
		lncvcObjs[key] = p
		if t.Elem().Kind() == reflect.Struct {
			lncvcFill(p.Elem(), name, m, depth-1)
		}
		return p
	case reflect.Struct:
		v := reflect.New(t).Elem()
		if t.String() == "time.Time" {
			if ns := int64(m[name]); ns != 0 {
				v.Set(reflect.ValueOf(time.Unix(0, ns)))
			}
			return v
		}
		lncvcFill(v, name, m, depth)
		return v
	case reflect.Slice:
		n, ok := m[name+".len"]
		if id, hasID := m[name+".id"]; hasID && id == 0 {
			return reflect.Zero(t)
		}
		if !ok {
			return reflect.Zero(t)
		}
		if n > 1<<20 {
			panic("lncvc-replay: model needs a huge slice")
		}
		s := reflect.MakeSlice(t, int(n), int(n))
		for i := 0; i < int(n) && i < 8; i++ {
			en := fmt.Sprintf("%s[%d]", name, i)
			if t.Elem().Kind() == reflect.Ptr {
				if m[en] != 0 {
					s.Index(i).Set(lncvcBuild(t.Elem(), en, m, depth-1))
				}
				continue
			}
			if _, ok := m[en]; ok {
				s.Index(i).Set(lncvcBuild(t.Elem(), en, m, depth-1))
			}
		}
		return s
	case reflect.Array:
		v := reflect.New(t).Elem()
		for i := 0; i < t.Len() && i < 64; i++ {
			en := fmt.Sprintf("%s[%d]", name, i)
			if _, ok := m[en]; ok {
				v.Index(i).Set(lncvcBuild(t.Elem(), en, m, depth-1))
			}
		}
		return v
	case reflect.Interface:
		if m[name+".tag"] == 0 {
			return reflect.Zero(t)
		}
		if v, ok := lncvcIface(t, name, m, depth); ok {
			return v
		}
		return reflect.Zero(t)
	case reflect.Chan:
		if ref, ok := m[name]; ok && ref == 0 {
			return reflect.Zero(t)
		}
		return reflect.MakeChan(reflect.ChanOf(reflect.BothDir, t.Elem()), 1)
	case reflect.Map:
		if ref, ok := m[name]; ok && ref == 0 {
			return reflect.Zero(t)
		}
		return reflect.MakeMap(t)
	case reflect.Func:
		if ref, ok := m[name]; !ok || ref == 0 {
			return reflect.Zero(t)
		}
		return reflect.MakeFunc(t, func(args []reflect.Value) []reflect.Value {
			out := make([]reflect.Value, t.NumOut())
			for i := range out {
				out[i] = reflect.Zero(t.Out(i))
			}
			return out
		})
	}
	return reflect.Zero(t)
}

func lncvcFill(v reflect.Value, name string, m map[string]uint64, depth int) {
	t := v.Type()
	for i := 0; i < t.NumField(); i++ {
		f := t.Field(i)
		if strings.HasPrefix(f.Type.String(), "sync.") {
			continue
		}
		lncvcSet(v.Field(i), lncvcBuild(f.Type, name+"."+f.Name, m, depth))
	}
}

func lncvcCall(f func()) (p any) {
	defer func() { p = recover() }()
	f()
	return nil
}
`

// makeReplay builds and runs the replay test for a failed obligation.
func (c *VerifCtx) makeReplay(fr *FuncResult, o *Obligation, workdir string) *ReplayResult {
	rr := &ReplayResult{}
	ct := fr.Contract
	if o.Res.Status != "sat" || len(o.Res.Model) == 0 {
		rr.Why = "the solver returned no model (" + o.Res.Status + ")"
		return rr
	}
	if ct.Decl == nil {
		rr.Why = "no source for the function"
		return rr
	}
	model := map[string]uint64{}
	for i, p := range o.Probes {
		if v, ok := o.Res.Model[fmt.Sprintf("?probe%d", i)]; ok {
			if n, ok := parseModelValue(v); ok {
				model[p.Name] = n
			}
		}
	}
	pkg := ct.Fn.Pkg.Pkg
	pkgDir := filepath.Dir(c.fset.Position(ct.Decl.Pos()).Filename)
	imports := map[string]bool{"fmt": true, "reflect": true, "testing": true, "unsafe": true, "strings": true, "time": true}
	qual := func(p *types.Package) string {
		if p == pkg {
			return ""
		}
		imports[p.Path()] = true
		return p.Name()
	}
	var sb strings.Builder
	// model literal
	var keys []string
	for k := range model {
		keys = append(keys, k)
	}
	sort.Strings(keys)
	sb.WriteString("\tlm := map[string]uint64{\n")
	for _, k := range keys {
		fmt.Fprintf(&sb, "\t\t%q: %#x,\n", k, model[k])
	}
	sb.WriteString("\t}\n")
	// arguments, named as in the contract header
	var argNames []string
	var recvName string
	params := ct.Fn.Params
	pi := 0
	declParam := func(name string, t types.Type, probe string) {
		ts := types.TypeString(t, qual)
		fmt.Fprintf(&sb, "\t%s := lncvcBuild(reflect.TypeOf((*%s)(nil)).Elem(), %q, lm, 3)\n", "v_"+name, ts, probe)
		fmt.Fprintf(&sb, "\tvar %s %s\n\tif v_%s.IsValid() && !(v_%s.Kind() == reflect.Interface && v_%s.IsNil()) { %s = v_%s.Interface().(%s) }\n", name, ts, name, name, name, name, name, ts)
	}
	if ct.Stub.Recv != nil {
		recvName = ct.Stub.Recv.List[0].Names[0].Name
		declParam(recvName, params[0].Type(), "arg."+params[0].Name())
		pi = 1
	}
	for _, f := range ct.Stub.Type.Params.List {
		for _, n := range f.Names {
			if n.Name == "_" {
				pi++
				continue
			}
			declParam(n.Name, params[pi].Type(), "arg."+params[pi].Name())
			argNames = append(argNames, n.Name)
			pi++
		}
	}
	// requires check
	sb.WriteString("\tpre := true\n")
	for _, cl := range ct.Clauses {
		if cl.Kind == "requires" {
			fmt.Fprintf(&sb, "\tif p := lncvcCall(func() { pre = pre && (%s) }); p != nil { pre = false }\n", cl.Text)
		}
	}
	sb.WriteString("\tif !pre {\n\t\tfmt.Println(\"REPLAY-PRE: reconstructed state does not satisfy requires\")\n\t\treturn\n\t}\n")
	// old values and the clause
	var clauseExpr string
	var defs []string
	if o.Kind == "ensures" {
		idx, _ := strconv.Atoi(o.Detail)
		cl := ct.Clauses[idx]
		if usesQuantOld(cl.Exprs[0]) {
			rr.Why = "the violated clause uses old() over a quantified variable; it cannot be evaluated by the replay test"
		} else {
			n := 0
			ne := hoistOld(cl.Exprs[0], &defs, &n)
			clauseExpr = astText(ne)
		}
	}
	for _, d := range defs {
		sb.WriteString("\t" + d + "\n")
	}
	// results
	var resNames []string
	if ct.Stub.Type.Results != nil {
		for _, f := range ct.Stub.Type.Results.List {
			for _, n := range f.Names {
				ts := astText(f.Type)
				fmt.Fprintf(&sb, "\tvar %s %s\n\t_ = %s\n", n.Name, ts, n.Name)
				resNames = append(resNames, n.Name)
			}
		}
	}
	call := ct.Name + "(" + strings.Join(argNames, ", ") + ")"
	if ct.Decl.Type.Params != nil && len(ct.Decl.Type.Params.List) > 0 {
		last := ct.Decl.Type.Params.List[len(ct.Decl.Type.Params.List)-1]
		if _, ok := last.Type.(*ast.Ellipsis); ok && len(argNames) > 0 {
			call = ct.Name + "(" + strings.Join(argNames, ", ") + "...)"
		}
	}
	if recvName != "" {
		call = recvName + "." + call
	}
	if len(resNames) > 0 {
		call = strings.Join(resNames, ", ") + " = " + call
	}
	fmt.Fprintf(&sb, "\tif p := lncvcCall(func() { %s }); p != nil {\n\t\tfmt.Println(\"REPLAY-PANIC:\", p)\n\t\treturn\n\t}\n", call)
	if clauseExpr != "" {
		fmt.Fprintf(&sb, "\tvar holds bool\n\tif p := lncvcCall(func() { holds = (%s) }); p != nil {\n\t\tfmt.Println(\"REPLAY-PANIC: evaluating the clause:\", p)\n\t\treturn\n\t}\n\tfmt.Println(\"REPLAY-CLAUSE:\", holds)\n", clauseExpr)
	} else {
		sb.WriteString("\tfmt.Println(\"REPLAY-RETURNED\")\n")
	}
	// interface builder: known dynamic types by engine tag
	var ifb strings.Builder
	ifb.WriteString("func lncvcIface(t reflect.Type, name string, m map[string]uint64, depth int) (reflect.Value, bool) {\n")
	ifb.WriteString("\tif t.String() == \"btclog.Logger\" { return reflect.ValueOf(btclog.Disabled), true }\n")
	imports["github.com/btcsuite/btclog/v2"] = true
	ifb.WriteString("\tswitch m[name+\".tag\"] {\n")
	var ids []int
	for id := range fr.TypeIDs {
		ids = append(ids, id)
	}
	sort.Ints(ids)
	for _, id := range ids {
		t := fr.TypeIDs[id]
		pt, ok := t.(*types.Pointer)
		if !ok {
			continue
		}
		nt, ok := pt.Elem().(*types.Named)
		if !ok || nt.Obj().Pkg() != pkg {
			continue
		}
		if _, ok := nt.Underlying().(*types.Struct); !ok {
			continue
		}
		fmt.Fprintf(&ifb, "\tcase %d:\n\t\tp := lncvcBuild(reflect.TypeOf((*%s)(nil)), name+\".(%s)\", m, depth)\n\t\tif p.IsNil() { p = reflect.New(reflect.TypeOf(%s{})) }\n\t\tif p.Type().Implements(t) { return p, true }\n", id, nt.Obj().Name(), nt.Obj().Name(), nt.Obj().Name())
	}
	ifb.WriteString("\t}\n")
	ifb.WriteString("\treturn reflect.Value{}, false\n}\n")
	var nonNil strings.Builder
	nonNil.WriteString("var lncvcNonNil = map[string]bool{}\n")

	var src strings.Builder
	src.WriteString("//go:build verif\n\npackage " + pkg.Name() + "\n\nimport (\n")
	var ims []string
	for p := range imports {
		ims = append(ims, p)
	}
	sort.Strings(ims)
	for _, p := range ims {
		if p == "github.com/btcsuite/btclog/v2" {
			fmt.Fprintf(&src, "\tbtclog %q\n", p)
			continue
		}
		fmt.Fprintf(&src, "\t%q\n", p)
	}
	src.WriteString(")\n\nvar _ = strings.HasPrefix\nvar _ = time.Now\nvar _ unsafe.Pointer\n")
	src.WriteString(replayRuntime)
	src.WriteString(ifb.String())
	src.WriteString(nonNil.String())
	src.WriteString("\nfunc TestLncvcReplay(t *testing.T) {\n")
	src.WriteString(sb.String())
	src.WriteString("}\n")
	rr.Test = src.String()

	// run
	os.MkdirAll(workdir, 0o755)
	testPath := filepath.Join(workdir, "zz_lncvc_replay_test.go")
	os.WriteFile(testPath, []byte(rr.Test), 0o644)
	ov := map[string]map[string]string{"Replace": {filepath.Join(pkgDir, "zz_lncvc_replay_test.go"): testPath}}
	ovb, _ := json.Marshal(ov)
	ovPath := filepath.Join(workdir, "overlay.json")
	os.WriteFile(ovPath, ovb, 0o644)
	cmd := exec.Command("go", "test", "-tags", "verif", "-overlay", ovPath, "-vet=off", "-count=1", "-timeout", "60s", "-run", "^TestLncvcReplay$", "-v", ".")
	cmd.Dir = pkgDir
	cmd.Env = append(os.Environ(), "GOFLAGS=-mod=mod", "GOPROXY=off", "GOTOOLCHAIN=auto")
	var out bytes.Buffer
	cmd.Stdout = &out
	cmd.Stderr = &out
	done := make(chan error, 1)
	go func() { done <- cmd.Run() }()
	select {
	case <-done:
	case <-time.After(180 * time.Second):
		if cmd.Process != nil {
			cmd.Process.Kill()
		}
	}
	rr.Attempted = true
	rr.Output = out.String()
	panicKinds := map[string]bool{"index": true, "slice": true, "nil": true, "div": true, "assert-type": true, "close": true, "send": true, "makeslice": true, "panic": true, "shift": true}
	switch {
	case strings.Contains(rr.Output, "REPLAY-PRE:"):
		rr.Why = "the pre-state rebuilt from the model does not satisfy the requires clauses (the model involves state the replay cannot rebuild)"
	case strings.Contains(rr.Output, "REPLAY-PANIC:"):
		rr.Reproduced = true
		rr.Why = "the real function panics on the model input"
	case strings.Contains(rr.Output, "REPLAY-CLAUSE: false"):
		rr.Reproduced = true
		rr.Why = "the violated clause evaluates to false on the real code"
	case strings.Contains(rr.Output, "REPLAY-CLAUSE: true"):
		rr.Why = "the clause holds on the real code for the rebuilt input (the counterexample depends on state the replay cannot rebuild)"
	case strings.Contains(rr.Output, "REPLAY-RETURNED"):
		if panicKinds[o.Kind] {
			rr.Why = "the real function returned without panicking on the rebuilt input"
		} else {
			rr.Why = "obligation kind " + o.Kind + " has no executable oracle; the function returned normally"
		}
	default:
		rr.Why = "the replay test did not build or run"
	}
	return rr
}

// rerunReplay re-executes the test stored in a replay file against the current tree.
func rerunReplay(path string) int {
	data, err := os.ReadFile(path)
	if err != nil {
		fmt.Println(err)
		return 2
	}
	text := string(data)
	const m1 = "--- replay test (injected with go test -overlay, nothing written to the repository) ---\n"
	const m2 = "--- replay output ---"
	i := strings.Index(text, m1)
	j := strings.Index(text, m2)
	var pkgDir string
	for _, ln := range strings.Split(text, "\n") {
		if strings.HasPrefix(ln, "package-dir: ") {
			pkgDir = strings.TrimPrefix(ln, "package-dir: ")
		}
	}
	if i < 0 || j < 0 || pkgDir == "" {
		fmt.Println("this replay file carries no executable test (no model was available); it records the failed obligation and the solver output only")
		fmt.Print(text)
		return 1
	}
	test := text[i+len(m1) : j]
	defer cleanupScratch()
	work, _ := os.MkdirTemp(scratch(), "replay-")
	testPath := filepath.Join(work, "zz_lncvc_replay_test.go")
	os.WriteFile(testPath, []byte(test), 0o644)
	ov := map[string]map[string]string{"Replace": {filepath.Join(pkgDir, "zz_lncvc_replay_test.go"): testPath}}
	ovb, _ := json.Marshal(ov)
	ovPath := filepath.Join(work, "overlay.json")
	os.WriteFile(ovPath, ovb, 0o644)
	cmd := exec.Command("go", "test", "-tags", "verif", "-overlay", ovPath, "-vet=off", "-count=1", "-timeout", "60s", "-run", "^TestLncvcReplay$", "-v", ".")
	cmd.Dir = pkgDir
	cmd.Env = append(os.Environ(), "GOFLAGS=-mod=mod", "GOPROXY=off", "GOTOOLCHAIN=auto")
	out, _ := cmd.CombinedOutput()
	fmt.Print(string(out))
	if strings.Contains(string(out), "REPLAY-PANIC:") || strings.Contains(string(out), "REPLAY-CLAUSE: false") {
		fmt.Println("replay: the violation reproduces on the current tree")
		return 1
	}
	fmt.Println("replay: the violation does not reproduce on the current tree")
	return 0
}
