package main

// Evaluation of contract expressions (typed Go expressions from the contract
// stubs / loop clauses) over symbolic states, modular calls, and the root
// verification of one function against its contract.

import (
	"os"
	"fmt"
	"sort"
	"go/ast"
	"go/constant"
	"go/token"
	"go/types"
	"math/big"
	"strings"

	"golang.org/x/tools/go/ssa"
)

type SpecEnv struct {
	vars map[types.Object]Value
	st   *State // current state
	old  *State // state for old(...)
	fr   *Frame // for locals of the function under verification (loop clauses)
	info *types.Info
	// bound variables of quantifiers in assumed position need real quantifiers;
	// we only support skolemisable positions and record the polarity here.
	callSite  bool
	freshRefs []*Term
	pol       int // +1: the expression is being proved, -1: assumed, 0: both
	inOld     bool
}

func (fr *Frame) specEnv(st, old *State) *SpecEnv {
	return &SpecEnv{vars: map[types.Object]Value{}, st: st, old: old, fr: fr}
}

// proveSpec / assumeSpec evaluate a clause with the polarity that decides how
// quantifiers are encoded (skolem constant vs. real quantifier).
func (ex *Exec) proveSpec(e ast.Expr, info *types.Info, env *SpecEnv, pc *Term) *Term {
	e2 := *env
	e2.pol = 1
	return ex.evalSpecBool(e, info, &e2, pc)
}
func (ex *Exec) assumeSpec(e ast.Expr, info *types.Info, env *SpecEnv, pc *Term) *Term {
	e2 := *env
	e2.pol = -1
	t := ex.evalSpecBool(e, info, &e2, pc)
	env.freshRefs = append(env.freshRefs, e2.freshRefs...)
	return t
}

// proveSplit evaluates a clause that is to be proved and splits it along its
// top-level structure  A && B,  implies(G, A && B)  into separate goals, so that
// every obligation stays small.
func (ex *Exec) proveSplit(e ast.Expr, info *types.Info, env *SpecEnv, pc *Term) []*Term {
	switch x := e.(type) {
	case *ast.ParenExpr:
		return ex.proveSplit(x.X, info, env, pc)
	case *ast.BinaryExpr:
		if x.Op == token.LAND {
			return append(ex.proveSplit(x.X, info, env, pc), ex.proveSplit(x.Y, info, env, pc)...)
		}
	case *ast.CallExpr:
		if id := calleeIdent(x.Fun); id != nil && id.Name == "implies" && len(x.Args) == 2 {
			if _, isB := info.Uses[id].(*types.Func); isB {
				e2 := *env
				e2.pol = -1
				g := ex.evalSpecBool(x.Args[0], info, &e2, pc)
				var out []*Term
				for _, t := range ex.proveSplit(x.Args[1], info, env, pc) {
					out = append(out, Implies(g, t))
				}
				return out
			}
		}
	}
	// spec functions expand to conjunctions: prove the conjuncts separately
	t := ex.proveSpec(e, info, env, pc)
	if os.Getenv("LNCVC_NOSPLIT") == "" {
		return splitGoal(t, 16)
	}
	return []*Term{t}
}

// splitGoal splits a goal into conjuncts: A && B, and G => (A && B) (a
// skolemised quantifier body under its guard), up to max pieces.
func splitGoal(t *Term, max int) []*Term {
	if max <= 1 {
		return []*Term{t}
	}
	switch t.op {
	case "and":
		if len(t.args) > max {
			return []*Term{t}
		}
		var out []*Term
		for _, a := range t.args {
			out = append(out, splitGoal(a, max/len(t.args))...)
		}
		return out
	case "or":
		// exactly one conjunctive disjunct: distribute
		k := -1
		for i, a := range t.args {
			if a.op == "and" {
				if k >= 0 {
					return []*Term{t}
				}
				k = i
			}
		}
		if k < 0 {
			return []*Term{t}
		}
		var out []*Term
		for _, c := range splitGoal(t.args[k], max) {
			args := append([]*Term(nil), t.args...)
			args[k] = c
			out = append(out, Or(args...))
		}
		return out
	}
	return []*Term{t}
}

func (ex *Exec) evalSpecBool(e ast.Expr, info *types.Info, env *SpecEnv, pc *Term) *Term {
	v := ex.evalSpec(e, info, env, pc)
	b, ok := v.(BoolV)
	if !ok {
		panic(fmt.Sprintf("contract expression is not boolean: %T", v))
	}
	return b.T
}

func (ex *Exec) constOf(tv types.TypeAndValue) (Value, bool) {
	if tv.Value == nil {
		return nil, false
	}
	t := tv.Type
	if w, _, ok := isIntType(t); ok {
		bi, ok2 := new(big.Int).SetString(tv.Value.ExactString(), 10)
		if !ok2 {
			return nil, false
		}
		return IntV{BVBig(bi, w)}, true
	}
	if b, ok := t.Underlying().(*types.Basic); ok {
		switch {
		case b.Info()&types.IsBoolean != 0:
			return BoolV{Bool(constant.BoolVal(tv.Value))}, true
		case b.Info()&types.IsString != 0:
			s := constant.StringVal(tv.Value)
			return StringV{ex.strID(s), BV(uint64(len(s)), 64)}, true
		case b.Info()&types.IsFloat != 0:
			return ex.constVal(ssa.NewConst(tv.Value, t)), true
		}
	}
	return nil, false
}

func (ex *Exec) localCell(fr *Frame, obj types.Object) *Cell {
	if fr == nil {
		return nil
	}
	for alloc, cell := range fr.cells {
		if alloc.Pos().IsValid() && alloc.Pos() == obj.Pos() {
			return cell
		}
	}
	for alloc, cell := range fr.cells {
		if fr.allocObj(alloc) == obj {
			return cell
		}
	}
	// a variable of the enclosing function captured by this closure
	for i, fv := range fr.fn.FreeVars {
		if fv.Pos() == obj.Pos() || fv.Name() == obj.Name() && !fv.Pos().IsValid() {
			if i < len(fr.bind) {
				if p, ok := fr.bind[i].(PtrV); ok && p.Kind == PLocal && len(p.Path) == 0 {
					return p.Cell
				}
			}
		}
	}
	return nil
}

// localHeapVar: a local variable that escapes (heap-allocated struct): the
// pointer its Alloc produced.
func (ex *Exec) localHeapVar(fr *Frame, obj types.Object) Value {
	if fr == nil {
		return nil
	}
	for v, val := range fr.regs {
		if al, ok := v.(*ssa.Alloc); ok && al.Heap {
			if (al.Pos().IsValid() && al.Pos() == obj.Pos()) || fr.allocObj(al) == obj {
				return val
			}
		}
	}
	return nil
}

// allocObj finds the source variable of an Alloc through the debug refs.
func (fr *Frame) allocObj(a *ssa.Alloc) types.Object {
	if fr.allocObjs == nil {
		fr.allocObjs = map[*ssa.Alloc]types.Object{}
		for _, b := range fr.fn.Blocks {
			for _, ins := range b.Instrs {
				dr, ok := ins.(*ssa.DebugRef)
				if !ok || dr.Object() == nil {
					continue
				}
				switch x := dr.X.(type) {
				case *ssa.Alloc:
					if dr.IsAddr {
						if _, dup := fr.allocObjs[x]; !dup {
							fr.allocObjs[x] = dr.Object()
						}
					}
				case *ssa.UnOp:
					if al, ok := x.X.(*ssa.Alloc); ok && x.Op == token.MUL && !dr.IsAddr {
						if _, isVar := dr.Object().(*types.Var); isVar {
							if id, ok := dr.Expr.(*ast.Ident); ok && id.Name == al.Comment {
								fr.allocObjs[al] = dr.Object()
							}
						}
					}
				}
			}
		}
		// parameters: spilled allocs carry the parameter name; match by name
		for _, b := range fr.fn.Blocks {
			for _, ins := range b.Instrs {
				if s, ok := ins.(*ssa.Store); ok {
					if p, ok := s.Val.(*ssa.Parameter); ok {
						if al, ok := s.Addr.(*ssa.Alloc); ok && p.Object() != nil {
							fr.allocObjs[al] = p.Object()
						}
					}
				}
			}
		}
	}
	return fr.allocObjs[a]
}

func (ex *Exec) evalSpec(e ast.Expr, info *types.Info, env *SpecEnv, pc *Term) Value {
	if tv, ok := info.Types[e]; ok && tv.Value != nil {
		if v, ok := ex.constOf(tv); ok {
			return v
		}
	}
	switch x := e.(type) {
	case *ast.ParenExpr:
		return ex.evalSpec(x.X, info, env, pc)
	case *ast.Ident:
		obj := info.Uses[x]
		if obj == nil {
			obj = info.Defs[x]
		}
		if v, ok := env.vars[obj]; ok {
			return v
		}
		switch o := obj.(type) {
		case *types.Nil:
			return ZeroV(info.Types[e].Type)
		case *types.Var:
			if o.Parent() == o.Pkg().Scope() {
				return ex.loadGlobalVar(o, env.st, pc)
			}
			if env.inOld && env.fr != nil {
				// parameters inside old() denote the values the function was entered with
				for i, p := range env.fr.fn.Params {
					if p.Object() == o {
						return env.fr.paramVals[i]
					}
				}
			}
			if c := ex.localCell(env.fr, o); c != nil {
				v, ok := env.st.cells[c.id]
				if !ok {
					return ZeroV(c.typ)
				}
				return v
			}
			if p := ex.localHeapVar(env.fr, o); p != nil {
				ex.dry++
				ex.inSpec++
				v := ex.load(env.st, p, nil, pc, token.NoPos)
				ex.dry--
				ex.inSpec--
				return v
			}
			panic(fmt.Sprintf("contract refers to variable %s which is not in scope of the verified function", o.Name()))
		case *types.Const:
			if v, ok := ex.constOf(types.TypeAndValue{Type: o.Type(), Value: o.Val()}); ok {
				return v
			}
		}
		if x.Name == "nil" {
			return ZeroV(info.Types[e].Type)
		}
		panic(fmt.Sprintf("contract: cannot evaluate identifier %s", x.Name))
	case *ast.BasicLit:
		if v, ok := ex.constOf(info.Types[e]); ok {
			return v
		}
	case *ast.SelectorExpr:
		if sel, ok := info.Selections[x]; ok && sel.Kind() == types.FieldVal {
			base := ex.evalSpec(x.X, info, env, pc)
			return ex.specField(base, sel, env.st, pc)
		}
		// package-qualified
		if obj, ok := info.Uses[x.Sel]; ok {
			switch o := obj.(type) {
			case *types.Var:
				return ex.loadGlobalVar(o, env.st, pc)
			case *types.Const:
				if v, ok := ex.constOf(types.TypeAndValue{Type: o.Type(), Value: o.Val()}); ok {
					return v
				}
			}
		}
		panic(fmt.Sprintf("contract: unsupported selector %s", exprString(e)))
	case *ast.StarExpr:
		p := ex.evalSpec(x.X, info, env, pc)
		ex.dry++; ex.inSpec++
		v := ex.load(env.st, p, info.Types[e].Type, pc, token.NoPos)
		ex.dry--; ex.inSpec--
		return v
	case *ast.UnaryExpr:
		if x.Op == token.AND {
			return ex.specAddr(x.X, info, env, pc)
		}
		if x.Op == token.NOT {
			e2 := *env
			e2.pol = -env.pol
			v := ex.evalSpec(x.X, info, &e2, pc)
			return BoolV{Not(v.(BoolV).T)}
		}
		v := ex.evalSpec(x.X, info, env, pc)
		switch x.Op {
		case token.SUB:
			return IntV{BVNeg(v.(IntV).T)}
		case token.XOR:
			return IntV{BVNotT(v.(IntV).T)}
		case token.ADD:
			return v
		}
	case *ast.BinaryExpr:
		if x.Op != token.LAND && x.Op != token.LOR && env.pol != 0 {
			e2 := *env
			e2.pol = 0
			env = &e2
		}
		var a, b Value
		switch {
		case info.Types[x.Y].IsNil():
			a = ex.evalSpec(x.X, info, env, pc)
			b = ZeroV(info.Types[x.X].Type)
		case info.Types[x.X].IsNil():
			b = ex.evalSpec(x.Y, info, env, pc)
			a = ZeroV(info.Types[x.Y].Type)
		default:
			a = ex.evalSpec(x.X, info, env, pc)
			b = ex.evalSpec(x.Y, info, env, pc)
		}
		ex.dry++; ex.inSpec++
		defer func() { ex.dry--; ex.inSpec-- }()
		ta, tb := info.Types[x.X].Type, info.Types[x.Y].Type
		// untyped constants take the other operand's type
		if _, isC := a.(IntV); isC {
			if bi, ok := b.(IntV); ok && a.(IntV).T.width != bi.T.width && x.Op != token.SHL && x.Op != token.SHR {
				a, b, ta, tb = unifyInt(a.(IntV), bi, ta, tb, info.Types[x.X].Value != nil, info.Types[x.Y].Value != nil)
			}
		}
		return ex.binop(x.Op, a, b, ta, tb, pc, token.NoPos, exprString(e))
	case *ast.IndexExpr:
		// generic instantiation f[T] handled in call
		base := ex.evalSpec(x.X, info, env, pc)
		idxv := ex.evalSpec(x.Index, info, env, pc)
		switch b := base.(type) {
		case SliceV:
			idx := SignExtTo64(idxv.(IntV).T, info.Types[x.Index].Type)
			return ex.elemLoad(env.st, b, idx)
		case ArrV:
			idx := SignExtTo64(idxv.(IntV).T, info.Types[x.Index].Type)
			return mkValue(b.Elem, func(sort, hint string) *Term { return SelectA(b.A, idx) }, "")
		case GoArrV:
			it := idxv.(IntV).T
			if it.lit {
				return b.E[it.val.Int64()]
			}
			// symbolic index into a small array: select by case distinction
			var cur Value = b.E[len(b.E)-1]
			for k := len(b.E) - 2; k >= 0; k-- {
				cur = mergeSafe(Eq(it, BV(uint64(k), it.width)), b.E[k], cur)
			}
			return cur
		case MapV:
			return ex.specMapGet(b, idxv, info.Types[x.X].Type, env.st, false)
		}
		panic(fmt.Sprintf("contract: unsupported index %s on %T", exprString(e), base))
	case *ast.SliceExpr:
		base := ex.evalSpec(x.X, info, env, pc)
		var sl SliceV
		switch b := base.(type) {
		case SliceV:
			sl = b
		case ArrV:
			// by-value array: give it a throw-away local store
			c := ex.newCell("specarr", types.NewArray(b.Elem, b.N))
			env.st.cells[c.id] = b
			n := BV(uint64(b.N), 64)
			sl = SliceV{St: StLocal, Cell: c, Off: BV(0, 64), Len: n, Cap: n, Elem: b.Elem}
		default:
			panic(fmt.Sprintf("contract: slice of %T", base))
		}
		lo, hi := BV(0, 64), sl.Len
		if x.Low != nil {
			lo = SignExtTo64(ex.evalSpec(x.Low, info, env, pc).(IntV).T, info.Types[x.Low].Type)
		}
		if x.High != nil {
			hi = SignExtTo64(ex.evalSpec(x.High, info, env, pc).(IntV).T, info.Types[x.High].Type)
		}
		sl.Off = BVAdd(sl.Off, lo)
		sl.Len = BVSub(hi, lo)
		sl.Cap = BVSub(sl.Cap, lo)
		return sl
	case *ast.TypeAssertExpr:
		v := ex.evalSpec(x.X, info, env, pc)
		if iv, ok := v.(IfaceV); ok {
			return ex.fromIface(iv, info.Types[e].Type)
		}
	case *ast.CallExpr:
		return ex.specCall(x, info, env, pc)
	}
	panic(fmt.Sprintf("contract: unsupported expression %s (%T)", exprString(e), e))
}

func unifyInt(a, b IntV, ta, tb types.Type, aConst, bConst bool) (Value, Value, types.Type, types.Type) {
	if aConst && !bConst {
		_, s, _ := isIntType(ta)
		if s {
			return IntV{SignExt(a.T, b.T.width)}, b, tb, tb
		}
		return IntV{ZeroExt(a.T, b.T.width)}, b, tb, tb
	}
	if bConst && !aConst {
		_, s, _ := isIntType(tb)
		if s {
			return a, IntV{SignExt(b.T, a.T.width)}, ta, ta
		}
		return a, IntV{ZeroExt(b.T, a.T.width)}, ta, ta
	}
	return a, b, ta, tb
}

func exprString(e ast.Expr) string { return types.ExprString(e) }

func (ex *Exec) loadGlobalVar(o *types.Var, st *State, pc *Term) Value {
	sp := ex.prog.Package(o.Pkg())
	if sp == nil {
		return FreshV(o.Type(), "global."+o.Name())
	}
	g, ok := sp.Members[o.Name()].(*ssa.Global)
	if !ok {
		return FreshV(o.Type(), "global."+o.Name())
	}
	ex.dry++; ex.inSpec++
	defer func() { ex.dry--; ex.inSpec-- }()
	return ex.load(st, PtrV{Kind: PGlobal, Cell: ex.globalCell(g)}, o.Type(), pc, token.NoPos)
}

func (ex *Exec) specField(base Value, sel *types.Selection, st *State, pc *Term) Value {
	cur := base
	t := sel.Recv()
	idx := sel.Index()
	for _, i := range idx {
		// auto-deref
		if p, ok := t.Underlying().(*types.Pointer); ok {
			t = p.Elem()
		}
		stt := t.Underlying().(*types.Struct)
		switch b := cur.(type) {
		case PtrV:
			np := b
			np.Path = appendPath(b.Path, i)
			ft := stt.Field(i).Type()
			ex.dry++; ex.inSpec++
			cur = ex.load(st, np, ft, pc, token.NoPos)
			ex.dry--; ex.inSpec--
		case StructV:
			cur = b.F[i]
		case PoisonV:
			return FreshV(sel.Type(), "poisonfield")
		default:
			panic(fmt.Sprintf("contract: field of %T", cur))
		}
		t = stt.Field(i).Type()
	}
	return cur
}

// specAddr evaluates &x.f (used for held(&q.mu) and modifies).
func (ex *Exec) specAddr(e ast.Expr, info *types.Info, env *SpecEnv, pc *Term) Value {
	switch x := e.(type) {
	case *ast.ParenExpr:
		return ex.specAddr(x.X, info, env, pc)
	case *ast.SelectorExpr:
		sel, ok := info.Selections[x]
		if !ok {
			break
		}
		var base Value
		if _, isPtr := sel.Recv().Underlying().(*types.Pointer); isPtr {
			base = ex.evalSpec(x.X, info, env, pc)
		} else {
			// the operand is an addressable struct value: take its address
			base = ex.specAddr(x.X, info, env, pc)
		}
		t := sel.Recv()
		idx := sel.Index()
		cur := base
		for k, i := range idx {
			if p, ok := t.Underlying().(*types.Pointer); ok {
				t = p.Elem()
			}
			stt := t.Underlying().(*types.Struct)
			b, ok := cur.(PtrV)
			if !ok {
				panic("contract: address of field of non-pointer")
			}
			np := b
			np.Path = appendPath(b.Path, i)
			if k == len(idx)-1 {
				return np
			}
			if _, isPtr := stt.Field(i).Type().Underlying().(*types.Pointer); !isPtr {
				// an embedded struct value: stay inside the same object
				cur = np
				t = stt.Field(i).Type()
				continue
			}
			ex.dry++; ex.inSpec++
			cur = ex.load(env.st, np, stt.Field(i).Type(), pc, token.NoPos)
			ex.dry--; ex.inSpec--
			t = stt.Field(i).Type()
		}
	case *ast.Ident:
		if o, ok := info.Uses[x].(*types.Var); ok {
			if c := ex.localCell(env.fr, o); c != nil {
				return PtrV{Kind: PLocal, Cell: c}
			}
			if p := ex.localHeapVar(env.fr, o); p != nil {
				return p
			}
		}
	}
	panic("contract: unsupported address-of " + exprString(e))
}

func (ex *Exec) specMapGet(m MapV, key Value, mt types.Type, st *State, presentOnly bool) Value {
	base, mm := mapNames(mt)
	kt, ok := keyTerm(key)
	if !ok {
		panic("contract: unsupported map key")
	}
	pa := Select(st.get(base+"|present", SArr(SRef, SArr(kt.sort, SBool))), m.Ref)
	present := Select(pa, kt)
	if presentOnly {
		return BoolV{present}
	}
	k := 0
	stored := mkValue(mm.Elem(), func(sort, hint string) *Term {
		a := Select(st.get(fmt.Sprintf("%s|val#%d", base, k), SArr(SRef, SArr(kt.sort, sort))), m.Ref)
		k++
		return Select(a, kt)
	}, "")
	return mergeSafe(present, stored, ZeroV(mm.Elem()))
}

func calleeIdent(fun ast.Expr) *ast.Ident {
	switch f := fun.(type) {
	case *ast.Ident:
		return f
	case *ast.IndexExpr:
		return calleeIdent(f.X)
	case *ast.IndexListExpr:
		return calleeIdent(f.X)
	case *ast.ParenExpr:
		return calleeIdent(f.X)
	case *ast.SelectorExpr:
		return f.Sel
	}
	return nil
}

func (ex *Exec) specCall(call *ast.CallExpr, info *types.Info, env *SpecEnv, pc *Term) Value {
	// conversion
	if tv, ok := info.Types[call.Fun]; ok && tv.IsType() {
		v := ex.evalSpec(call.Args[0], info, env, pc)
		from := info.Types[call.Args[0]].Type
		if b, ok := from.Underlying().(*types.Basic); ok && b.Info()&types.IsUntyped != 0 {
			from = tv.Type
			if iv, ok := v.(IntV); ok {
				if w, _, ok := isIntType(tv.Type); ok {
					return IntV{SignExt(iv.T, w)}
				}
			}
		}
		return ex.convert(v, from, tv.Type, pc, env.st)
	}
	id := calleeIdent(call.Fun)
	if id == nil {
		panic("contract: unsupported call " + exprString(call))
	}
	obj := info.Uses[id]
	arg := func(i int) Value {
		if tv, ok := info.Types[call.Args[i]]; ok && tv.IsNil() {
			// nil takes the type of the parameter it is passed to
			if fo, ok := obj.(*types.Func); ok {
				sig := fo.Type().(*types.Signature)
				if i < sig.Params().Len() {
					pt := sig.Params().At(i).Type()
					if !types.IsInterface(pt) || true {
						if _, isTP := pt.(*types.TypeParam); !isTP {
							return ZeroV(pt)
						}
					}
				}
			}
		}
		return ex.evalSpec(call.Args[i], info, env, pc)
	}
	if _, ok := obj.(*types.Builtin); ok {
		switch id.Name {
		case "len", "cap":
			switch a := arg(0).(type) {
			case SliceV:
				if id.Name == "len" {
					return IntV{a.Len}
				}
				return IntV{a.Cap}
			case StringV:
				return IntV{a.Len}
			case ArrV:
				return IntV{BV(uint64(a.N), 64)}
			case ChanV:
				return IntV{Select(env.st.get("chcap", SArr(SRef, SBV(64))), a.Ref)}
			}
		case "min", "max":
			a, b := arg(0).(IntV).T, arg(1).(IntV).T
			_, signed, _ := isIntType(info.Types[call].Type)
			lt := BVUlt(a, b)
			if signed {
				lt = BVSlt(a, b)
			}
			if id.Name == "min" {
				return IntV{Ite(lt, a, b)}
			}
			return IntV{Ite(lt, b, a)}
		}
		panic(fmt.Sprintf("contract: unsupported builtin %s on %T in %s", id.Name, arg(0), exprString(call)))
	}
	fnObj, _ := obj.(*types.Func)
	if fnObj == nil {
		panic("contract: call of non-function " + exprString(call))
	}
	// methods with library meaning
	if sig := fnObj.Type().(*types.Signature); sig.Recv() != nil {
		recvE := call.Fun.(*ast.SelectorExpr).X
		rv := ex.evalSpec(recvE, info, env, pc)
		full := fnObj.FullName()
		switch full {
		case "(time.Time).IsZero":
			return BoolV{Eq(rv.(TimeV).T, BV(0, 64))}
		case "(time.Time).Sub":
			return IntV{BVSub(rv.(TimeV).T, arg(0).(TimeV).T)}
		}
		panic("contract: unsupported method call " + full)
	}
	// spec builtins of the contract prelude
	if v, ok := ex.cryptoSpec(id.Name, arg, env); ok {
		return v
	}
	switch id.Name {
	case "old":
		if env.old == nil {
			panic("contract: old() outside a two-state clause")
		}
		e2 := *env
		e2.st = env.old
		e2.inOld = true
		v := ex.evalSpec(call.Args[0], info, &e2, pc)
		if sl, ok := v.(SliceV); ok && sl.Snap == nil {
			// old(s) of a slice captures its elements as they were
			if es, ok := scalarSort(sl.Elem); ok {
				sl.Snap = ex.sliceArr(env.old, sl, 0, es)
				return sl
			}
		}
		return v
	case "implies":
		e2 := *env
		e2.pol = -env.pol
		a := ex.evalSpec(call.Args[0], info, &e2, pc)
		return BoolV{Implies(a.(BoolV).T, arg(1).(BoolV).T)}
	case "iff":
		e2 := *env
		e2.pol = 0
		a := ex.evalSpec(call.Args[0], info, &e2, pc)
		b := ex.evalSpec(call.Args[1], info, &e2, pc)
		return BoolV{Eq(a.(BoolV).T, b.(BoolV).T)}
	case "ite":
		e2 := *env
		e2.pol = 0
		c := ex.evalSpec(call.Args[0], info, &e2, pc)
		return mergeSafe(c.(BoolV).T, arg(1), arg(2))
	case "forall", "exists":
		return ex.specQuant(id.Name, call, info, env, pc)
	case "is":
		// is[T](x): dynamic type of interface x is T
		iv := arg(0).(IfaceV)
		t := info.Instances[id].TypeArgs.At(0)
		return BoolV{Eq(iv.Tag, ex.typeID(t))}
	case "as":
		iv := arg(0).(IfaceV)
		t := info.Instances[id].TypeArgs.At(0)
		return ex.fromIface(iv, t)
	case "isnil":
		switch a := arg(0).(type) {
		case IfaceV:
			return BoolV{Eq(a.Tag, BV(0, 16))}
		case PtrV:
			return BoolV{Eq(a.Ref, RefNil())}
		case SliceV:
			return BoolV{sliceIsNil(a)}
		case ChanV:
			return BoolV{Eq(a.Ref, RefNil())}
		case MapV:
			return BoolV{Eq(a.Ref, RefNil())}
		case FuncV:
			if a.Fn != nil {
				return BoolV{False}
			}
			return BoolV{Eq(a.ID, RefNil())}
		}
	case "held", "rheld", "unheld":
		p := arg(0)
		ex.dry++; ex.inSpec++
		lv, ok := ex.load(env.st, p, nil, pc, token.NoPos).(LockV)
		ex.dry--; ex.inSpec--
		if !ok {
			panic("contract: held() of a non-mutex")
		}
		switch id.Name {
		case "held":
			return BoolV{Eq(lv.Held, BV(1, 8))}
		case "rheld":
			return BoolV{Or(Eq(lv.Held, BV(2, 8)), Eq(lv.Held, BV(1, 8)))}
		}
		return BoolV{Eq(lv.Held, BV(0, 8))}
	case "oncedone":
		p := arg(0)
		ex.dry++
		ex.inSpec++
		ov, ok := ex.load(env.st, p, nil, pc, token.NoPos).(OnceV)
		ex.dry--
		ex.inSpec--
		if !ok {
			panic("contract: oncedone() of a non-Once")
		}
		return BoolV{ov.Done}
	case "same":
		// same(a, b): component-wise identity of two values of the same type
		a, b := arg(0), arg(1)
		if a.shape() != b.shape() {
			return BoolV{False}
		}
		return BoolV{EqV(a, b)}
	case "bufbytes":
		// bufbytes(&buf): the unread content of a bytes.Buffer
		ex.dry++
		ex.inSpec++
		bv, ok := ex.load(env.st, arg(0), nil, pc, token.NoPos).(BufV)
		ex.dry--
		ex.inSpec--
		if !ok {
			panic("contract: bufbytes() of a non-Buffer")
		}
		return SliceV{St: StDyn, ID: bv.ID, Off: BV(0, 64), Len: bv.Len, Cap: bv.Len, Elem: types.Typ[types.Uint8]}
	case "disjoint":
		a, b := arg(0).(SliceV), arg(1).(SliceV)
		if a.St != b.St || a.St == StLocal {
			return BoolV{True}
		}
		return BoolV{Or(Neq(a.ID, b.ID), Eq(a.Len, BV(0, 64)), Eq(b.Len, BV(0, 64)), BVSle(BVAdd(a.Off, a.Len), b.Off), BVSle(BVAdd(b.Off, b.Len), a.Off))}
	case "past":
		t := arg(0).(TimeV).T
		return BoolV{And(BVSle(BV(0, 64), t), BVSle(t, env.st.get("ghost|clock", SBV(64))))}
	case "closed":
		ch := arg(0).(ChanV)
		return BoolV{Select(env.st.get("chclosed", SArr(SRef, SBool)), ch.Ref)}
	case "has":
		// has(m, k): key present in map
		return ex.specMapGet(arg(0).(MapV), arg(1), info.Types[call.Args[0]].Type, env.st, true)
	case "seqeq":
		// seqeq(a, b): same length and same bytes
		return BoolV{ex.seqEq(arg(0).(SliceV), arg(1).(SliceV), env, pc)}
	case "sameslice":
		a, b := arg(0).(SliceV), arg(1).(SliceV)
		if a.shape() != b.shape() {
			return BoolV{False}
		}
		return BoolV{EqV(a, b)}
	case "ghost":
		// ghost("name"): value of a ghost counter
		name := constant.StringVal(info.Types[call.Args[0]].Value)
		return IntV{env.st.get("ghost|"+name, SBV(64))}
	case "wirebyte":
		i := SignExtTo64(arg(0).(IntV).T, info.Types[call.Args[0]].Type)
		return IntV{SelectA(env.st.get("ghost|wire.bytes", SByteArr), i)}
	case "nsenton", "nrecvon":
		// number of sends / receives on this channel
		k := "send"
		if id.Name == "nrecvon" {
			k = "recv"
		}
		ch := arg(0).(ChanV)
		return IntV{Select(env.st.get(chanLogKey(k, chanElem(info.Types[call.Args[0]].Type))+"cnt", SArr(SRef, SBV(64))), ch.Ref)}
	case "within":
		// within(sub, whole): sub is a window of whole's backing array inside whole
		a, b := arg(0).(SliceV), arg(1).(SliceV)
		if a.St != b.St || a.St == StLocal {
			return BoolV{False}
		}
		// (stated over the relative offset: for well-formed slices - offsets and
		// lengths in [0, 2^40] - this is b.Off <= a.Off && a.Off+a.Len <= b.Off+b.Len;
		// written as a.Len <= b.Len - rel so that no sum has to be compared)
		rel := BVSub(a.Off, b.Off)
		return BoolV{And(Eq(a.ID, b.ID), BVSle(BV(0, 64), rel), BVSle(rel, b.Len), BVSle(a.Len, BVSub(b.Len, rel)), BVSle(BV(0, 64), a.Len))}
	case "offsetin":
		a, b := arg(0).(SliceV), arg(1).(SliceV)
		return IntV{BVSub(a.Off, b.Off)}
	case "senton", "recvon":
		// the i-th send / receive in the log of ch's element type was on ch
		k := "send"
		if id.Name == "recvon" {
			k = "recv"
		}
		i := SignExtTo64(arg(0).(IntV).T, info.Types[call.Args[0]].Type)
		ch := arg(1).(ChanV)
		return BoolV{Eq(Select(env.st.get(chanLogKey(k, chanElem(info.Types[call.Args[1]].Type))+"ch", SArr(SBV(64), SRef)), i), ch.Ref)}
	case "wirelen":
		return IntV{env.st.get("ghost|wire.len", SBV(64))}
	case "nsent", "nrecv":
		// nsent[T](): number of sends on channels with element type T (one log per element type)
		k := "send"
		if id.Name == "nrecv" {
			k = "recv"
		}
		t := info.Instances[id].TypeArgs.At(0)
		return IntV{env.st.get(chanLogKey(k, t)+"n", SBV(64))}
	case "sentval", "recvval":
		k := "send"
		if id.Name == "recvval" {
			k = "recv"
		}
		i := SignExtTo64(arg(0).(IntV).T, info.Types[call.Args[0]].Type)
		t := info.Instances[id].TypeArgs.At(0)
		return PtrV{Kind: PHeap, Ref: Select(env.st.get(chanLogKey(k, t)+"val", SArr(SBV(64), SRef)), i), Root: t.Underlying().(*types.Pointer).Elem()}
	case "sinkctx":
		// sinkctx(): the context passed to the last call of a `sink` function field
		return IfaceV{env.st.get("ctxmeta|sinkctx.tag", SBV(16)), env.st.get("ctxmeta|sinkctx.pay", SBV(64))}
	case "ctxdone":
		// ctxdone(ctx): the channel ctx.Done() returns is closed
		iv := arg(0).(IfaceV)
		return BoolV{Select(env.st.get("chclosed", SArr(SRef, SBool)), ctxDoneRef(iv))}
	case "ctxtimeout":
		// ctxtimeout(ctx): the duration ctx was created with by context.WithTimeout
		iv := arg(0).(IfaceV)
		return IntV{Select(env.st.get("ctxmeta|timeout", SArr(SBV(64), SBV(64))), iv.Pay)}
	case "nevents":
		name := constant.StringVal(info.Types[call.Args[0]].Value)
		return IntV{env.st.get("ghost|ev."+name+".n", SBV(64))}
	case "eventref":
		name := constant.StringVal(info.Types[call.Args[0]].Value)
		i := SignExtTo64(arg(1).(IntV).T, info.Types[call.Args[1]].Type)
		r := Select(env.st.get("ghost|ev."+name+".ref", SArr(SBV(64), SRef)), i)
		t := info.Instances[id].TypeArgs.At(0)
		return PtrV{Kind: PHeap, Ref: r, Root: t.Underlying().(*types.Pointer).Elem()}
	case "allocated":
		r := refOf(arg(0))
		return BoolV{Select(env.st.get("alloc", SArr(SRef, SBool)), r)}
	case "fresh":
		// fresh(p): p was allocated during this call
		r := refOf(arg(0))
		if env.callSite {
			env.freshRefs = append(env.freshRefs, r)
		}
		return BoolV{And(Neq(r, RefNil()), Not(Select(env.old.get("alloc", SArr(SRef, SBool)), r)))}
	}
	// user spec function: inline its body
	decl := ex.ctx.decls[fnObj]
	if decl == nil && fnObj.Origin() != nil {
		decl = ex.ctx.decls[fnObj.Origin()]
	}
	if decl == nil || decl.Body == nil {
		panic("contract: no body for spec function " + id.Name)
	}
	finfo := ex.ctx.infoOf[fnObj.Pkg()]
	e2 := &SpecEnv{vars: map[types.Object]Value{}, st: env.st, old: env.old, fr: nil, pol: env.pol, callSite: env.callSite}
	i := 0
	for _, f := range decl.Type.Params.List {
		for _, n := range f.Names {
			e2.vars[finfo.Defs[n]] = arg(i)
			i++
		}
	}
	v, ok := ex.evalSpecBody(decl.Body.List, finfo, e2, pc)
	if !ok {
		panic("contract: spec function " + id.Name + " must be a chain of if/return statements")
	}
	return v
}

// evalSpecBody evaluates `if c { return a }; ...; return b` chains.
func (ex *Exec) evalSpecBody(stmts []ast.Stmt, info *types.Info, env *SpecEnv, pc *Term) (Value, bool) {
	if len(stmts) == 0 {
		return nil, false
	}
	switch s := stmts[0].(type) {
	case *ast.ReturnStmt:
		if len(s.Results) != 1 {
			return nil, false
		}
		return ex.evalSpec(s.Results[0], info, env, pc), true
	case *ast.IfStmt:
		if s.Init != nil {
			return nil, false
		}
		c := ex.evalSpecBool(s.Cond, info, env, pc)
		thenV, ok := ex.evalSpecBody(s.Body.List, info, env, pc)
		if !ok {
			return nil, false
		}
		var rest []ast.Stmt
		if s.Else != nil {
			switch el := s.Else.(type) {
			case *ast.BlockStmt:
				rest = el.List
			case *ast.IfStmt:
				rest = []ast.Stmt{el}
			}
			// statements after an if/else with returns on both arms are dead
		} else {
			rest = stmts[1:]
		}
		elseV, ok := ex.evalSpecBody(rest, info, env, pc)
		if !ok {
			return nil, false
		}
		return mergeSafe(c, thenV, elseV), true
	case *ast.RangeStmt:
		// for k := range a { if c { return false } }  ==  forall k in [0,len(a)): !c
		if s.Value == nil && s.Key != nil && len(s.Body.List) == 1 {
			ifs, ok := s.Body.List[0].(*ast.IfStmt)
			kid, ok2 := s.Key.(*ast.Ident)
			if ok && ok2 && ifs.Else == nil && ifs.Init == nil && len(ifs.Body.List) == 1 {
				if ret, ok := ifs.Body.List[0].(*ast.ReturnStmt); ok && len(ret.Results) == 1 {
					if tv, ok := info.Types[ret.Results[0]]; ok && tv.Value != nil && tv.Value.String() == "false" {
						sl, ok := ex.evalSpec(s.X, info, env, pc).(SliceV)
						if !ok {
							return nil, false
						}
						skolem := env.pol > 0
						var k *Term
						if skolem {
							k = Fresh("q."+kid.Name, SBV(64))
						} else {
							k = BoundVar("b."+kid.Name, SBV(64))
						}
						e2 := *env
						e2.vars = map[types.Object]Value{}
						for a, b := range env.vars {
							e2.vars[a] = b
						}
						e2.vars[info.Defs[kid]] = IntV{k}
						e2.pol = -env.pol
						c := ex.evalSpecBool(ifs.Cond, info, &e2, pc)
						inner := Implies(And(BVSle(BV(0, 64), k), BVSlt(k, sl.Len)), Not(c))
						var q *Term
						if skolem {
							q = inner
						} else {
							q = Quant("forall", k, inner)
							if env.pol != 0 {
								instQuant[q.id] = true
							}
						}
						rest, ok := ex.evalSpecBody(stmts[1:], info, env, pc)
						if !ok {
							return nil, false
						}
						rb, ok := rest.(BoolV)
						if !ok {
							return nil, false
						}
						return BoolV{And(q, rb.T)}, true
					}
				}
			}
		}
		return nil, false
	case *ast.AssignStmt:
		// x := e  (single definition of a local helper value)
		if s.Tok == token.DEFINE && len(s.Lhs) == 1 && len(s.Rhs) == 1 {
			id := s.Lhs[0].(*ast.Ident)
			e2 := *env
			e2.vars = map[types.Object]Value{}
			for k, v := range env.vars {
				e2.vars[k] = v
			}
			e2.vars[info.Defs[id]] = ex.evalSpec(s.Rhs[0], info, env, pc)
			return ex.evalSpecBody(stmts[1:], info, &e2, pc)
		}
	}
	return nil, false
}

// specQuant: forall(lo, hi, func(i int) bool {...}) over lo <= i < hi.
// The bound variable becomes a fresh constant: in a goal this is
// skolemisation (sound); in an assumed clause the instance is only assumed for
// that one arbitrary index, which is weaker than the quantified fact (sound).
func (ex *Exec) specQuant(kind string, call *ast.CallExpr, info *types.Info, env *SpecEnv, pc *Term) Value {
	lo := ex.evalSpec(call.Args[0], info, env, pc).(IntV).T
	hi := ex.evalSpec(call.Args[1], info, env, pc).(IntV).T
	fl, ok := call.Args[2].(*ast.FuncLit)
	if !ok {
		panic("contract: forall needs a function literal")
	}
	p := fl.Type.Params.List[0].Names[0]
	skolem := (kind == "forall" && env.pol > 0) || (kind == "exists" && env.pol < 0)
	var k *Term
	if skolem {
		k = Fresh("q."+p.Name, lo.sort)
	} else {
		k = BoundVar("b."+p.Name, lo.sort)
	}
	e2 := *env
	e2.vars = map[types.Object]Value{}
	for a, b := range env.vars {
		e2.vars[a] = b
	}
	e2.vars[info.Defs[p]] = IntV{k}
	body, ok := ex.evalSpecBody(fl.Body.List, info, &e2, pc)
	if !ok {
		panic("contract: quantifier body must be if/return chain")
	}
	rng := And(BVSle(lo, k), BVSlt(k, hi))
	var inner *Term
	if kind == "forall" {
		inner = Implies(rng, body.(BoolV).T)
	} else {
		inner = And(rng, body.(BoolV).T)
	}
	if skolem {
		return BoolV{inner}
	}
	q := Quant(kind, k, inner)
	if kind == "forall" && env.pol != 0 {
		instQuant[q.id] = true
	}
	return BoolV{q}
}

type quantUse struct {
	kind string
	k    *Term
}

// seqEq: byte-wise equality of two byte sequences.
func (ex *Exec) seqEq(a, b SliceV, env *SpecEnv, pc *Term) *Term {
	var k *Term
	if env.pol > 0 {
		k = Fresh("seq.k", SBV(64))
	} else {
		k = BoundVar("b.seq", SBV(64))
	}
	ea := ex.elemLoad(env.st, a, k).(IntV).T
	eb := ex.elemLoad(env.st, b, k).(IntV).T
	inner := Implies(And(BVSle(BV(0, 64), k), BVSlt(k, a.Len)), Eq(ea, eb))
	if env.pol > 0 {
		return And(Eq(a.Len, b.Len), inner)
	}
	q := Quant("forall", k, inner)
	if env.pol != 0 {
		instQuant[q.id] = true
	}
	return And(Eq(a.Len, b.Len), q)
}

// ---------------------------------------------------------------- modular call

func (fr *Frame) contractCall(ct *Contract, fn *ssa.Function, args []Value, pc *Term, st *State, pos token.Pos, resT types.Type) callResult {
	ex := fr.ex
	ex.ctx.calledContracts[contractName(ct)]++
	if ct.Trusted {
		ex.note("assumed: trusted contract of %s (its body is not verified)", contractName(ct))
	} else if ct.NoFrame {
		ex.note("assumed: %s modifies only what its modifies clause lists (noframe: its frame is not verified)", contractName(ct))
	}
	nPreCall := len(ex.assumes)
	info := ex.ctx.infoOf[ct.StubObj.Pkg()]
	env := &SpecEnv{vars: map[types.Object]Value{}, st: st, old: st}
	bindStubParams(ct, info, env, args)
	// requires
	for _, cl := range ct.Clauses {
		if cl.Kind != "requires" {
			continue
		}
		g := ex.proveSpec(cl.Exprs[0], info, env, pc)
		ex.oblige("call-requires", fmt.Sprintf("%s.%d", contractName(ct), cl.Index), pos, pc, g, "requires "+cl.Text)
	}
	if contains(ex.curProps, "C18") && ex.dry == 0 {
		saved := ex.clauseProps
		ex.clauseProps = []string{"C18"}
		for _, key := range ct.Acquires {
			if rank, ok := ex.ctx.lockRank[key]; ok {
				ex.checkRankFree(st, key+" (by "+contractName(ct)+")", rank, pc, pos)
			}
			if rc := ex.ctx.contractFor(ex.root); rc != nil {
				ex.oblige("lock", "declared "+key+" via "+contractName(ct), pos, pc, Bool(contains(rc.Acquires, key)), "the contract's acquires clause lists "+key+" (acquired by the callee "+contractName(ct)+")")
			}
		}
		if ct.Exclusive {
			ex.exclusiveCall(fr, ct, fr.curSite, pc, pos)
		}
		ex.clauseProps = saved
	}
	pre := st.clone()
	savedPending := ex.pendingPtrs
	ex.pendingPtrs = nil
	// the callee may read the clock: time moves on
	{
		oldc := st.get("ghost|clock", SBV(64))
		nc := Fresh("clock.after."+ct.Name, SBV(64))
		ex.assume(pc, And(BVSle(oldc, nc), BVSlt(nc, BV(1<<62, 64))))
		st.set("ghost|clock", nc)
	}
	// frame
	env.st = st
	for _, cl := range ct.Clauses {
		if cl.Kind != "modifies" {
			continue
		}
		for _, e := range cl.Exprs {
			ex.havocLocation(e, info, &SpecEnv{vars: env.vars, st: pre, old: pre}, st, pc)
		}
	}
	// results
	var res Value = TupleV{}
	sig := fn.Signature
	var resVals []Value
	for i := 0; i < sig.Results().Len(); i++ {
		rt := sig.Results().At(i).Type()
		v := FreshV(rt, "res."+ct.Name)
		// range facts only; allocated-or-fresh is decided after the ensures clauses
		ex.noAlloc++
		ex.wellFormed(st, v, pc)
		ex.noAlloc--
		resVals = append(resVals, v)
	}
	bindStubResults(ct, info, env, resVals)
	switch len(resVals) {
	case 0:
	case 1:
		res = resVals[0]
	default:
		res = TupleV{resVals}
	}
	env.st = st
	env.old = pre
	env.callSite = true
	// values read from the post-state may be objects the callee allocated
	ex.noAlloc++
	for _, cl := range ct.Clauses {
		if cl.Kind != "ensures" {
			continue
		}
		g := ex.assumeSpec(cl.Exprs[0], info, env, pc)
		ex.assume(pc, g)
	}
	ex.noAlloc--
	// pointer results are either declared fresh (then they join the allocated
	// set now) or point to something that was already allocated
	al := st.get("alloc", SArr(SRef, SBool))
	var refs []*Term
	for _, v := range resVals {
		switch x := v.(type) {
		case PtrV:
			if x.Kind == PHeap {
				refs = append(refs, x.Ref)
			}
		case SliceV:
			if x.St == StDyn {
				refs = append(refs, x.ID)
			}
		case ChanV:
			refs = append(refs, x.Ref)
		case MapV:
			refs = append(refs, x.Ref)
		}
	}
	refs = append(refs, ex.pendingPtrs...)
	ex.pendingPtrs = savedPending
	al0 := al
	for _, r := range refs {
		isFresh := false
		for _, f := range env.freshRefs {
			if f == r {
				isFresh = true
			}
		}
		if !isFresh {
			ex.assume(pc, Or(Eq(r, RefNil()), Select(al0, r)))
		}
	}
	// everything the callee's contract declares fresh joins the allocated set
	for _, f := range env.freshRefs {
		al = Store(al, f, True)
	}
	st.set("alloc", al)
	ex.coverFrom("after call "+contractName(ct), pos, pc, nPreCall)
	// lock state is restored by every function unless the contract says otherwise
	return callResult{val: res, st: st}
}

func bindStubParams(ct *Contract, info *types.Info, env *SpecEnv, args []Value) {
	i := 0
	if ct.Stub.Recv != nil {
		for _, n := range ct.Stub.Recv.List[0].Names {
			env.vars[info.Defs[n]] = args[0]
		}
		i = 1
	}
	for _, f := range ct.Stub.Type.Params.List {
		for _, n := range f.Names {
			env.vars[info.Defs[n]] = args[i]
			i++
		}
		if len(f.Names) == 0 {
			i++
		}
	}
}

func bindStubResults(ct *Contract, info *types.Info, env *SpecEnv, res []Value) {
	if ct.Stub.Type.Results == nil {
		return
	}
	i := 0
	for _, f := range ct.Stub.Type.Results.List {
		for _, n := range f.Names {
			if i < len(res) {
				env.vars[info.Defs[n]] = res[i]
			}
			i++
		}
	}
}

// havocLocation havocs the location denoted by a modifies expression.
// Locations are evaluated in the pre-state.
func (ex *Exec) havocLocation(e ast.Expr, info *types.Info, pre *SpecEnv, st *State, pc *Term) {
	switch x := e.(type) {
	case *ast.ParenExpr:
		ex.havocLocation(x.X, info, pre, st, pc)
		return
	case *ast.SelectorExpr:
		p, ok := ex.specAddr(x, info, pre, pc).(PtrV)
		if !ok {
			break
		}
		t := info.Types[e].Type
		switch p.Kind {
		case PHeap:
			cur := st.heapLoad(p.Root, p.Path, p.Ref)
			st.heapStore(p.Root, p.Path, p.Ref, havocKeepShape(cur, "mod."+x.Sel.Name))
			nv := st.heapLoad(p.Root, p.Path, p.Ref)
			if np, ok := nv.(PtrV); ok && np.Kind == PHeap {
				// allocated-or-fresh is decided after the ensures clauses
				ex.pendingPtrs = append(ex.pendingPtrs, np.Ref)
			} else if nc, ok := nv.(ChanV); ok {
				ex.pendingPtrs = append(ex.pendingPtrs, nc.Ref)
			} else {
				ex.wellFormed(st, nv, pc)
			}
		default:
			cur, ok := st.cells[p.Cell.id]
			if !ok {
				cur = ZeroV(p.Cell.typ)
			}
			st.cells[p.Cell.id] = navSet(cur, p.Path, havocKeepShape(navGet(cur, p.Path), "mod."+x.Sel.Name))
		}
		_ = t
		return
	case *ast.CallExpr:
		id := calleeIdent(x.Fun)
		if id != nil {
			switch id.Name {
			case "elems":
				// all elements of the slice's backing store
				sl, ok := ex.evalSpec(x.Args[0], info, pre, pc).(SliceV)
				if ok {
					for k, c := range ZeroV(sl.Elem).comps() {
						arr := ex.sliceArr(st, sl, k, c.sort)
						ex.setSliceArr(st, sl, k, Fresh("mod.elems", arr.sort))
					}
				}
				return
			case "entries":
				m, ok := ex.evalSpec(x.Args[0], info, pre, pc).(MapV)
				if ok {
					base, mm := mapNames(info.Types[x.Args[0]].Type)
					kt, _ := keyTerm(ZeroV(mm.Key()))
					pn := base + "|present"
					pm := st.get(pn, SArr(SRef, SArr(kt.sort, SBool)))
					st.set(pn, Store(pm, m.Ref, Fresh("mod.present", SArr(kt.sort, SBool))))
					for k, c := range ZeroV(mm.Elem()).comps() {
						vn := fmt.Sprintf("%s|val#%d", base, k)
						vm := st.get(vn, SArr(SRef, SArr(kt.sort, c.sort)))
						st.set(vn, Store(vm, m.Ref, Fresh("mod.val", SArr(kt.sort, c.sort))))
					}
				}
				return
			case "chanstate":
				ch, ok := ex.evalSpec(x.Args[0], info, pre, pc).(ChanV)
				if ok {
					cl := st.get("chclosed", SArr(SRef, SBool))
					st.set("chclosed", Store(cl, ch.Ref, Fresh("mod.closed", SBool)))
				}
				return
			case "wire":
				// the wire only grows: the bytes already written stay
				wl := st.get("ghost|wire.len", SBV(64))
				nl := Fresh("mod.wire.len", SBV(64))
				ex.assume(pc, And(BVSle(wl, nl), BVSlt(nl, BV(1<<61, 64))))
				st.set("ghost|wire.len", nl)
				ob := st.get("ghost|wire.bytes", SByteArr)
				nb := Fresh("mod.wire.bytes", SByteArr)
				k := BoundVar("b.w", SBV(64))
				q := Quant("forall", k, Implies(And(BVSle(BV(0, 64), k), BVSlt(k, wl)), Eq(Select(nb, k), SelectA(ob, k))))
				instQuant[q.id] = true
				ex.assume(pc, q)
				st.set("ghost|wire.bytes", nb)
				st.set("ghost|wire.calls", Fresh("mod.wire.calls", SBV(64)))
				return
			case "chanlog":
				// chanlog[T](): the send and receive logs of channels with element type T
				t := info.Instances[id].TypeArgs.At(0)
				ex.havocGhostLog(st, []string{chanLogKey("send", t), chanLogKey("recv", t)}, pc)
				return
			case "cryptolog":
				ex.havocGhostLog(st, []string{"ghost|seal.", "ghost|open.", "ghost|aead.", "ghost|hkdf.", "ghost|hash.", "ghost|hmac."}, pc)
				return
			case "ghost":
				name := constant.StringVal(info.Types[x.Args[0]].Value)
				st.set("ghost|"+name, Fresh("mod.ghost."+name, SBV(64)))
				return
			case "events":
				name := constant.StringVal(info.Types[x.Args[0]].Value)
				if name == "*" {
					seen := map[string]bool{}
					var ps []string
					for k := range heapSorts {
						if strings.HasPrefix(k, "ghost|ev.") {
							if i := strings.LastIndex(k, "."); i > 0 && !seen[k[:i+1]] {
								seen[k[:i+1]] = true
								ps = append(ps, k[:i+1])
							}
						}
					}
					sort.Strings(ps)
					ex.havocGhostLog(st, ps, pc)
					return
				}
				ex.havocGhostLog(st, []string{"ghost|ev." + name + "."}, pc)
				return
			case "clock":
				old := st.get("ghost|clock", SBV(64))
				t := Fresh("mod.clock", SBV(64))
				ex.assume(pc, And(BVSle(old, t), BVSlt(t, BV(1<<62, 64))))
				st.set("ghost|clock", t)
				return
			}
		}
	case *ast.StarExpr:
		p, ok := ex.evalSpec(x.X, info, pre, pc).(PtrV)
		if ok && p.Kind == PHeap {
			cur := st.heapLoad(p.Root, p.Path, p.Ref)
			st.heapStore(p.Root, p.Path, p.Ref, havocKeepShape(cur, "mod.obj"))
			return
		}
	}
	panic("contract: unsupported modifies target " + exprString(e))
}

func havocKeepShape(v Value, hint string) Value {
	switch x := v.(type) {
	case StructV:
		fs := make([]Value, len(x.F))
		for i, f := range x.F {
			fs[i] = havocKeepShape(f, hint)
		}
		return StructV{x.Typ, fs}
	case GoArrV:
		es := make([]Value, len(x.E))
		for i, f := range x.E {
			es[i] = havocKeepShape(f, hint)
		}
		return GoArrV{es, x.Elem}
	}
	return havocValue(v, hint)
}

func refOf(v Value) *Term {
	switch x := v.(type) {
	case PtrV:
		if x.Kind == PHeap {
			return x.Ref
		}
	case ChanV:
		return x.Ref
	case MapV:
		return x.Ref
	case SliceV:
		if x.St == StDyn {
			return x.ID
		}
	}
	panic(fmt.Sprintf("contract: %T is not a reference", v))
}

// exclusiveCall: a callee that needs exclusive access to its receiver may only
// be called on an object owned by the caller's goroutine role (declared with
// `field T.f owned_by role,...`), or from a function that is itself exclusive
// on the same object, or on an object the caller allocated itself.
func (ex *Exec) exclusiveCall(fr *Frame, ct *Contract, site *ssa.Call, pc *Term, pos token.Pos) {
	rc := ex.ctx.contractFor(ex.root)
	role := ""
	if rc != nil {
		role = rc.Role
	}
	okStatic := false
	what := "?"
	if site != nil && len(site.Call.Args) > 0 {
		what = ex.ctx.fieldName(site.Call.Args[0])
		if d, ok := ex.ctx.fieldDisc[what]; ok && d.Kind == "owned_by" {
			for _, r := range strings.Split(d.Arg, ",") {
				if r == role && role != "" {
					okStatic = true
				}
			}
		}
		// receiver is the root's own receiver and the root is exclusive too
		if rc != nil && rc.Exclusive {
			if p, ok := site.Call.Args[0].(*ssa.UnOp); ok {
				if al, ok := p.X.(*ssa.Alloc); ok && len(fr.fn.Params) > 0 && al.Comment == fr.fn.Params[0].Name() {
					okStatic = true
				}
			}
		}
	}
	ex.oblige("lock", "exclusive "+contractName(ct)+" on "+what, pos, pc, Bool(okStatic),
		contractName(ct)+" needs exclusive access to its receiver: the object must be owned by this goroutine role ("+role+")")
}

// havocGhostLog: an append-only ghost log (counter <prefix>n plus arrays indexed
// by event number, or per-object ghost arrays) is changed by a callee: the
// counter may grow, entries below the old counter stay.
// ghostSchema: components of the known ghost logs (so that a havoc covers
// components that have not been touched yet).
func ghostSchema(prefix string) map[string]string {
	ev := SArr(SBV(64), SFP)
	switch {
	case prefix == "ghost|seal.":
		return map[string]string{"n": SBV(64), "key": ev, "nonce": ev, "pt": ev, "ad": ev, "out": SArr(SBV(64), SRef)}
	case prefix == "ghost|open.":
		return map[string]string{"n": SBV(64), "key": ev, "nonce": ev, "ct": ev, "ad": ev, "ok": SArr(SBV(64), SBool)}
	case prefix == "ghost|aead.":
		return map[string]string{"key": SArr(SRef, SFP)}
	case prefix == "ghost|hkdf.":
		return map[string]string{"secret": SArr(SRef, SFP), "salt": SArr(SRef, SFP), "info": SArr(SRef, SFP), "pos": SArr(SRef, SBV(64))}
	case prefix == "ghost|hash.":
		return map[string]string{"len": SArr(SRef, SBV(64))}
	case prefix == "ghost|hmac.":
		return map[string]string{"key": SArr(SRef, SFP)}
	case strings.HasPrefix(prefix, "ghost|send|"), strings.HasPrefix(prefix, "ghost|recv|"):
		return map[string]string{"n": SBV(64), "ch": SArr(SBV(64), SRef), "val": SArr(SBV(64), SRef), "cnt": SArr(SRef, SBV(64))}
	case strings.HasPrefix(prefix, "ghost|ev."):
		return map[string]string{"n": SBV(64), "ref": SArr(SBV(64), SRef)}
	}
	return nil
}

func (ex *Exec) havocGhostLog(st *State, prefixes []string, pc *Term) {
	for _, p := range prefixes {
		for comp, srt := range ghostSchema(p) {
			if _, ok := heapSorts[p+comp]; !ok {
				heapSorts[p+comp] = srt
			}
		}
	}
	var keys []string
	for k := range heapSorts {
		for _, p := range prefixes {
			if strings.HasPrefix(k, p) {
				keys = append(keys, k)
			}
		}
	}
	sort.Strings(keys)
	for _, p := range prefixes {
		nKey := p + "n"
		oldN := st.get(nKey, SBV(64))
		for _, k := range keys {
			if !strings.HasPrefix(k, p) {
				continue
			}
			srt := heapSorts[k]
			old := st.get(k, srt)
			nv := Fresh("mod."+k, srt)
			switch {
			case k == nKey:
				// event counters are never negative and do not overflow
				ex.assume(pc, And(BVSle(BV(0, 64), old), BVSle(old, nv), BVSlt(nv, BV(1<<62, 64))))
			case strings.HasPrefix(srt, "(Array (_ BitVec 64)"):
				i := BoundVar("b.lg", SBV(64))
				q := Quant("forall", i, Implies(And(BVSle(BV(0, 64), i), BVSlt(i, oldN)), Eq(Select(nv, i), Select(old, i))))
				instQuant[q.id] = true
				ex.assume(pc, q)
			case strings.HasPrefix(srt, "(Array (_ BitVec 32)"):
				// per-object ghost state: objects that existed keep theirs
				al := st.get("alloc", SArr(SRef, SBool))
				r := BoundVar("b.lo", SRef)
				q := Quant("forall", r, Implies(Select(al, r), Eq(Select(nv, r), Select(old, r))))
				instQuant[q.id] = true
				ex.assume(pc, q)
			}
			st.set(k, nv)
		}
	}
}
