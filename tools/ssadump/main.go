package main

import (
	"go/types"
	"os"

	"golang.org/x/tools/go/packages"
	"golang.org/x/tools/go/ssa"
	"golang.org/x/tools/go/ssa/ssautil"
)

// debugging aid: dumps the naive-form SSA the engine sees
func main() {
	cfg := &packages.Config{Mode: packages.LoadSyntax, Dir: os.Args[1], BuildFlags: []string{"-tags=verif"},
		Env: append(os.Environ(), "GOFLAGS=-mod=mod", "GOPROXY=off", "GOTOOLCHAIN=auto")}
	pkgs, err := packages.Load(cfg, ".")
	if err != nil {
		panic(err)
	}
	prog, spkgs := ssautil.Packages(pkgs, ssa.NaiveForm|ssa.GlobalDebug)
	prog.Build()
	p := spkgs[0]
	var fn *ssa.Function
	if len(os.Args) == 3 {
		fn = p.Func(os.Args[2])
	} else {
		t := p.Type(os.Args[2])
		fn = prog.LookupMethod(types.NewPointer(t.Type()), p.Pkg, os.Args[3])
	}
	fn.WriteTo(os.Stdout)
	for _, a := range fn.AnonFuncs {
		a.WriteTo(os.Stdout)
	}
}
