#!/bin/bash
# usage: runprops.sh <patch> <prop...> : apply patch in a scratch worktree, run given checks
VERIF=/verif; p=$1; shift
wt=$(mktemp -d /tmp/lncvc-rp-XXXXXX); rmdir "$wt"
git -C /repo worktree add --detach -q "$wt" HEAD || exit 2
for f in gbn/verif_contracts.go mailbox/verif_contracts.go; do cp /repo/$f "$wt/$f"; done
git -C "$wt" apply "$p" || echo "PATCH FAILED"
for prop in "$@"; do
  out=$(LNCVC_REPO="$wt" LNCVC_VERIF_OUT="$wt/.verifout" "$VERIF/bin/check" "$prop" quick --scratch 2>&1); code=$?
  echo "$prop exit=$code $(echo "$out" | grep -E '^\s+FAIL ' | awk '{print $2}' | head -5 | paste -sd,)"
done
git -C /repo worktree remove --force "$wt"
