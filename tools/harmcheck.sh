#!/bin/bash
# usage: tools/harmcheck.sh <patch> : applies a behaviour-preserving patch in a scratch
# worktree and verifies the whole tree (all functions, all properties) once.
VERIF=/verif; p=$1
wt=$(mktemp -d /tmp/lncvc-hc-XXXXXX); rmdir "$wt"
git -C /repo worktree add --detach -q "$wt" HEAD || exit 2
for f in gbn/verif_contracts.go mailbox/verif_contracts.go; do cp /repo/$f "$wt/$f"; done
if ! git -C "$wt" apply "$p"; then echo "HARM $(basename $(dirname $p)): patch does not apply"; git -C /repo worktree remove --force "$wt"; exit 2; fi
out=$("$VERIF/bin/lncvc" -repo "$wt" -pkgs gbn,mailbox -no-replay -no-evidence -verif "$wt/.verifout" 2>&1); code=$?
fails=$(echo "$out" | grep -E "^\s+FAIL |ENGINE-ERROR|VACUOUS" | awk '{print $1, $2}' | head -6 | paste -sd';')
echo "HARM $p exit=$code $fails"
git -C /repo worktree remove --force "$wt"
