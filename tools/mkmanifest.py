#!/usr/bin/env python3
"""Regenerates /verif/MANIFEST.json from the table below (keeps it valid and
the not_applicable list complementary to the claimed checks)."""
import json, subprocess, os

TECH = "contract-based deductive verification of the real Go code (own VC generator over go/ssa, contracts in the guarded file verif_contracts.go, z3/cvc5)"
TRUST = ("Trusted: the lncvc VC generator (symbolic semantics of go/ssa), go/types, the SMT solvers; assumed contracts of the "
         "standard-library functions listed in the evidence; functions are verified sequentially (no interference between statements "
         "unless stated); unmodelled calls (loggers, user callbacks) are assumed not to touch the modelled state. "
         "Thorough tier: the same obligations with a 5x solver budget, and every unsat answer is re-checked by a second, different solver "
         "(evidence: cross_checked; a sat answer from the second solver is reported as a tool error, never a pass). ")

CLAIMS = {
 "C01": ("Per-function contracts of the Go-Back-N machinery, proved for all window sizes, sequence numbers and packet contents: the receive loop "
         "delivers a DATA packet iff its Seq equals recvSeq and it is not a ping, then advances recvSeq by one modulo s and ACKs exactly that Seq, "
         "otherwise NACKs recvSeq (two-state loop step clauses); processACK/processNACK move the base only forward inside the window for every "
         "sequence value 0..255; addPacket appends at top with Seq = top; resend retransmits exactly the window's packets in order; Send/Recv chunking "
         "and the codecs are exact; a successful Send hands the send loop at least one packet, the last one final.",
         "These are the per-step clauses of the protocol; the induction from them to 'every message arrives exactly once, in order' over whole executions "
         "(needs atomicity of each queue operation, FIFO transport per direction, a single Send caller) is a paper argument in DESIGN.md, not a machine-checked "
         "lemma; goroutine/timer interleavings are not explored. One explicit ownership assumption: a packet received from sendDataChan is not already queued. "
         ""),
 "C02": ("Per-record clauses proved for every record, key state and input byte string: a Read/ReadMessage returns plaintext only after exactly two AEAD opens "
         "(length header, body) that both authenticated under the receiver's current (key, nonce) pair; every open, successful or not, advances the receive "
         "state by the same spec function csnext that advances the sender's state per seal (lock step); on any failed open the caller gets an error and no "
         "data (nil); a buffered record tail is handed out without any decryption; split() gives initiator and responder complementary, direction-separated "
         "keys (send = HKDF block 0 / receive = block 1 for the initiator, swapped for the responder); the AEAD output buffer is never shared with a scratch buffer.",
         "The step from these clauses to 'the reader sees a prefix of what the peer wrote' is the standard AEAD argument (an open under (key, nonce) succeeds only "
         "on the ciphertext sealed under that pair - ciphertext integrity, assumed, not proved) plus induction over the record index: a paper argument in "
         "DESIGN.md, not a machine-checked lemma. Adversarial edit scripts are not enumerated; they are all inputs of the symbolic reader."),
 "C03": ("DoHandshake is verified for the four concrete role/pattern combinations (XX/KK x initiator/responder, wrappers verifXXResponder ...) with the real pattern "
         "tables obtained by symbolic execution of the package initialisers: the responder writes nothing to the transport before the first AEAD open (the MAC "
         "of act 1) succeeded; traffic keys exist (split ran) and a nil error is returned only if every open of the handshake succeeded and exactly the expected "
         "number happened (3, 3/2, 1, 2); ConnData.remoteKey/authData change only after the keys exist; SetRemote/SetAuthData keep the old value when the callback "
         "rejects; DecryptAndHash reports an error iff the open failed and then leaves the transcript hash unchanged; the MAC of act 1 is checked against the "
         "transcript that absorbed the unmasked remote ephemeral key; the two pattern tables are the Noise patterns (lemmaNoisePatterns); NewBrontideMachine establishes "
         "the wrappers' precondition; stretchPassphrase feeds the whole passphrase to scrypt; the gRPC entry points NoiseGrpcConn.ClientHandshake/ServerHandshake run the "
         "handshake as initiator/responder with the pattern chosen from the ConnData (XX before pairing, KK with version >= 2 once a remote key is stored) and the configured "
         "version bounds, and return a connection iff DoHandshake returned nil (verified over summary contracts of NewBrontideMachine and DoHandshake whose clauses are the ones "
         "the wrappers prove case by case).",
         "That a wrong passphrase or a wrong static key makes the MAC fail is a property of SPAKE2 masking, ECDH and ChaCha20-Poly1305 (ekeMask/ekeUnmask are "
         "trusted, point arithmetic is not modelled); what is proved is that nothing is released or installed unless the MACs verified."),
 "C04": ("Transcript mechanics proved per function: mixHash sets h := SHA-256(h || data); mixKey derives (ck, k) := HKDF(ck, input) and keys the cipher with k; "
         "EncryptAndHash/DecryptAndHash use the running hash as associated data, the current (key, nonce), and absorb the ciphertext; per role: the responder's "
         "version never changes and act 3 must carry it, the initiator adopts only a version inside [min, max]; on success the initiator's auth data is exactly "
         "the decrypted act-2 payload; the remote static key is published iff version >= 2 and is the key decrypted in the handshake; split is complementary.",
         "Known finding F3 (recorded, demonstrated by findings/f3_version_byte_unauthenticated_test.go): the cleartext version byte of each act is not part of the "
         "transcript, so an active attacker can make both sides complete with different negotiated versions. Agreement of the two parties' views is a two-party "
         "statement; it follows from the per-party clauses only under the AEAD/hash idealisation (paper argument)."),
 "C07": ("Every run-time panic obligation (index, slice bounds, nil dereference, division by zero, failing type assertion, close of closed channel, "
         "negative make) generated from the relay-facing functions of gbn (Deserialize, both handshakes, the receive loop, queue and syncer, timeout "
         "manager) and of mailbox (MsgData.Deserialize, connKit.Read, Noise readers, and the relay envelope: stripJSONWrapper, Recv/Send/Connect of the websocket and gRPC "
         "transports, the receive/send retry loops and mailbox re-creation of ClientConn and ServerConn - a stream is used only if it exists, a reconnect never replaces a "
         "live stream by nil, a message is looked into only when no error was reported) is discharged for arbitrary input bytes and relay answers, and the window "
         "invariant (base, top, recvSeq < s = n+1, 1 <= n <= 254) is established by the handshake and preserved for all 256 ACK/NACK/SYN values.",
         "Panics inside dependencies (btcec, protobuf, websocket, regexp) and memory exhaustion are not covered."),
 "C09": ("s = n+1 is established by newConfig/setN for every accepted n in 1..254; the queue invariant base, top < s is preserved by every operation "
         "for every ACK/NACK value; size() equals the mathematical window size; the send loop calls addPacket only with fewer than n packets outstanding "
         "(outer loop invariant) and the inner 'queue full' loop is left only when size() < n.",
         "The blocking half (Send returns without waiting for the first N) is shown only structurally; wake-ups are scheduling. Interference of the "
         "receive goroutine on the window base is sound under the verified guarantee that the base only moves forward inside the window."),
 "C10": ("Safety clause only: the server calls setN only with an n validated to 1..254 that it took from a client SYN, the SYN echo on the wire carries "
         "the adopted n, the client completes only after a SYN with N equal to its own proposal (point assertion) and non-SYN packets change nothing; every "
         "successful exit of the server handshake has adopted the client's N (assertion at the completion point); in the 'SYN resent' state a SYNACK or DATA packet "
         "completes it; NewServerConn/NewClientConn (without options) return a connection iff the handshake succeeded.",
         "The convergence clause (a handshake eventually succeeds once the transport behaves) is liveness over timers and is not covered."),
 "C11": ("Sequential clauses of Server.Accept and Client.Dial proved for every state satisfying the listener/dialer invariant: a connection is handed out only after "
         "the previous one's quit channel (closed only by its Close) is closed; the returned connection is the one remembered in mailboxConn, is a new object "
         "with an open quit channel; its two stream ids are derived (GetSID direction bit) from the session id currently in force, which is re-read from ConnData "
         "before every connection (point assertion: the id passed to the constructor is the remembered one); on a changed session id the old connection is "
         "stopped and a new one is created, otherwise RefreshClientConn/RefreshServerConn keep the stream ids; ConnData.HandshakePattern is XX iff no remote "
         "key is stored and SetRemote stores the key only when the callback accepted it; the session id is read after the wait for the old connection; "
         "ClientConn.Close/ServerConn.Close close the quit channel on every path (wrappers, connection without GBN part).",
         "ConnData.SID (hash/ECDH) is a trusted contract, and Accept/Dial use trusted contracts of ClientConn.Close and ServerConn.Stop (whose bodies the wrappers verify for a connection without GBN part); exclusivity as a schedule property (another goroutine using the old "
         "connection while Accept/Dial runs), 'a fresh working connection' (needs the relay and the GBN handshake to succeed) and the admission of a second client are not covered."),
 "C12": ("Typestate clauses only: Close's once-body closes quit, sends FIN unless the peer already did, cancels the context, stops the send queue, "
         "waits for the loops and stops every ticker created by start (ping, pong, resend); the FIN is written under a context created with the configured "
         "FIN timeout, that context is the one handed to the send function, and cancel() has not been called before it; a second Close changes nothing; Send/Recv entered after "
         "quit is closed return an error without touching the data channels; every blocking select of Send, Recv, both loops, both handshakes and the "
         "resend syncer - including the goroutine literals the handshakes start, the clock goroutine of the interval-aware ticker and the mailbox retry loops - has an arm on a "
         "close-only quit channel or ctx.Done; plain channel sends "
         "need a free buffer slot, plain receives a quit/timer channel.",
         "'returns within a bounded time' and the wake-up of blocked callers as scheduling facts are not covered; goroutines blocked inside user callbacks are not covered."),
 "C14": ("Send hands the send loop chunks that are consecutive windows of the message of 1..maxChunk bytes, exactly the last one flagged final "
         "(quantified loop invariant over the ghost channel log), one final packet for an empty message or when chunking is off, and nothing once "
         "it failed without the connection quitting; Recv appends each received chunk to the kept partial buffer, returns only after a final chunk "
         "and never drops consumed chunks on a timeout.",
         "append is modelled as always allocating; transport faults are C01's matter."),
 "C08": ("Cipher-state contracts proved for every state and every record: Encrypt and Decrypt each perform exactly one AEAD operation under the "
         "current (secretKey, nonce) pair (ghost seal/open log), then advance the state by the same spec function csnext - nonce+1, or at "
         "nonce+1 == keyRotationInterval the counter restarts and (salt, key) become the next two HKDF blocks of (key, salt) - so sender and receiver "
         "rotate at the same operation count by construction; the invariant nonce < keyRotationInterval and 'the AEAD object is keyed with secretKey' "
         "holds after every operation; WriteMessage performs exactly two seals (2-byte length, body), and what it queues for the wire are exactly the "
         "outputs of those two seals (never p itself); ReadHeader/ReadBody/ReadMessage open with the receive pair and advance it identically; "
         "lemmaSealOpenRoundTrip (bodies of Encrypt/Decrypt unfolded): two cipher states in the same state - what one encrypts the other decrypts to exactly the "
         "same bytes without error, and their states are equal again afterwards, including when that operation rotates the key.",
         "The round-trip lemma uses AEAD correctness (Open of a Seal output under the same key, nonce and associated data returns the plaintext), a true property of the "
         "primitive, not an idealisation. Freshness across rotations (HKDF outputs never repeat), ciphertext indistinguishability and 'equal plaintexts give different ciphertexts' are "
         "properties of ChaCha20-Poly1305/HKDF, idealised as uninterpreted functions of fingerprints of their inputs; the unbounded-history statement follows "
         "from the per-operation clauses by induction on the record count (paper step in DESIGN.md), it is not a machine-checked lemma. The handshake-time "
         "auth payload clause is not covered."),
 "C15": ("Read/Write contracts of NoiseGrpcConn, NoiseConn and connKit proved for every buffer length and record size: 0 <= n <= len(b); while unread "
         "plaintext is buffered (nextMsg / readBuf / recvBuffer) a Read performs no decryption and splits the buffer exactly - old buffer == b[:n] ++ new "
         "buffer, n > 0 for a non-empty b; a freshly decrypted record is handed out as b[:n] ++ kept tail (point assertions at the return statements); "
         "Write returns n == len(b) iff it succeeded, rejects > 65535 bytes on the gRPC variant without emitting anything, chunks at 65535 on the TCP "
         "variant (loop invariant), and WriteMessage/Flush never truncate (exact wire-length accounting); connKit.Write reports 0 on error.",
         "bytes.Buffer is modelled (Read/Write/Len/Reset on an abstract byte sequence); the GBN connection under connKit is abstracted by its contract; "
         "concatenation over whole histories follows from the per-call split clauses by induction (paper step)."),
 "C16": ("Flush is verified against an exact contract for every partition of the pending record into partial writes: it emits on the ghost wire exactly the "
         "next unsent bytes of header then body, in order, once (quantified over the wire log), keeps suffixes of the pending buffers, does not touch the "
         "body while header bytes remain, and reports exactly the plaintext bytes among the body bytes it emitted (MAC bytes subtracted); WriteMessage "
         "returns ErrMessageNotFlushed and changes nothing while a record is pending. Short reads: an obligation is generated for every call of an "
         "io.Reader's Read whose byte count is not used (the handshake parser and the record reader must go through io.ReadFull), and for every read that "
         "does not go to the transport value the function was handed (a buffering wrapper would swallow bytes); NoiseConn.Write reports on its error path exactly "
         "the plaintext accepted so far.",
         "The handshake outcome as a function of fragmentation is covered only through the short-read obligation (every field is read with io.ReadFull, "
         "whose model returns either all bytes or an error); partial-write schedules are all writers satisfying the io.Writer contract 0 <= n <= len(p), n < len(p) => err != nil."),
 "C17": ("Mnemonic codec: the two bit-stream loops are verified with loop invariants against an 11-bit-per-word spec for all 14-byte entropies and all "
         "index sequences; the lemma functions lemmaMnemonicRoundTrip / lemmaPhraseRoundTrip prove decode(encode(e)) == e on the 110 significant bits and "
         "encode(decode(words)) == words; the word-table axiom (2048 distinct words, index lookup inverse) is checked by an executable test on every run. "
         "Rendezvous: GetSID flips exactly the last bit for the server-to-client direction; NewClientConn/NewServerConn assign receive/send SIDs so that "
         "client.send == server.receive and client.receive == server.send and the two directions differ (lemmaSIDDirections), for every 64-byte SID.",
         "That both sides compute the same 64-byte SID from the same secret and different ones from different secrets rests on SHA-512/HMAC/ECDH "
         "(commutativity of ECDH and collision resistance are assumed, not proved); ConnData.SID itself is not under contract."),
 "C18": ("Race freedom as a schedule-independent permission discipline: every shared mutable field of queue, syncer, TimeoutManager, TimeoutBooster, "
         "IntervalAwareForceTicker and GoBackNConn is declared guarded_by a mutex / atomic / immutable / owned_by a goroutine role, and an obligation is "
         "generated and discharged at every access (lock held in the right mode, object not yet shared, or role matches); every Lock respects the "
         "declared rank order and is covered by the function's acquires clause (checked transitively at call sites); Unlock only of held locks; "
         "close only of open non-nil channels, no send on a channel some close() can close without knowing it is open; no wait on a WaitGroup while holding "
         "a mutex that the goroutines signalling it lock (found by scanning the goroutine literals).",
         "Schedules are not enumerated. Fields without a declaration are not checked (queue.content, config fields); the bodies of anonymous goroutine "
         "functions (handshake readers) are not under contract - the ticker clock loop is swept only for 'every blocking select can be woken by the quit channel that Reset/Stop close "
         "before waiting for it under resetMtx'; races inside dependencies and deadlocks other than lock-order inversions are not covered."),
 "C19": ("Every Serialize method and Deserialize of gbn and MsgData.Serialize/Deserialize of mailbox are verified against functional contracts "
         "(exact output bytes, exact decoded fields, error iff not well-formed) for all field values and a symbolic 64-bit payload length; the two "
         "round-trip statements are lemma functions verified modularly over those contracts.",
         "MsgData.Serialize carries the precondition len(Payload) < 2^32."),
 "C20": ("Invariant of the timeout manager (adaptive mode: resendTimeout >= 1 s and equal to the booster's base) established and preserved by "
         "Sent/Received/updateResendTimeoutUnsafe for all messages, bit-precise including the wrapping multiply; Received changes the timeout only "
         "from a pending sample, resets the boost, never in static mode; Sent boosts at most once and only on a resent DATA packet; Boost honours "
         "the frequency limit; GetCurrentTimeout >= base timeout (SMT floating point) under stated ranges.",
         "NewTimeOutManager's establishment of the invariant is trusted (options are opaque function values); float-to-int conversion outside "
         "0 <= timeout <= 2^40 ns, percent <= 16, count <= 65536 is not covered; time.Time is an int64 on a monotone clock."),
}

NA = {

 "C05": "end-to-end composition of four goroutines per endpoint and relay fault schedules with a liveness clause; no pre/postcondition or data-structure invariant within reach of a deductive verifier carries it (its layer-local content is claimed under C01, C02, C14, C15, C19)",
 "C06": "bounded-time delivery / no silent stall / quiescence are liveness properties over timers and interleavings, on which contracts are silent (the safety fragment 'resend sends nothing when the window is empty' is an obligation of C01/C09)",
 "C13": "real-time detection bounds of ticker goroutines racing with the send loop cannot be expressed as pre/postconditions",
}
PENDING = "not claimed yet: the contracts for this property are still being written (see DESIGN.md section 4 for the plan)"

def main():
    hooks = subprocess.run(["git","-C","/repo","log","--format=%h %s"],capture_output=True,text=True).stdout.splitlines()
    hook_commits = [l.split()[0] for l in hooks if "verif hook" in l]
    m = {
     "version": 1,
     "setup_cmd": "cd /verif/engine && GOFLAGS=-mod=mod GOPROXY=off GOTOOLCHAIN=auto go build -o /verif/bin/lncvc . && (cd /repo/gbn && GOFLAGS=-mod=mod GOPROXY=off go build -tags verif ./... ) && (cd /repo/mailbox && GOFLAGS=-mod=mod GOPROXY=off go build -tags verif . )",
     "hooks": {
      "guard": "verif",
      "enable": "go build tag: -tags verif (the contract files /repo/gbn/verif_contracts.go and /repo/mailbox/verif_contracts.go carry //go:build verif; they contain only the //@ contracts, spec functions and lemma functions and are not compiled without the tag)",
      "baseline_off_cmd": "for m in $(cat /w/out/gomods.txt); do MF=$(cd /repo/$m && . /w/out/goenv.sh && gomodflag); (cd /repo/$m && go test $MF -json -vet=off -count=1 -timeout 25m ./...); done",
      "source_commits": hook_commits,
      "add_only": True,
     },
     "engines": [{
      "name": "lncvc", "path": "/verif/engine", "serves_properties": sorted(CLAIMS),
      "kind_free_text": "contract-based deductive verifier for Go written for this task: contracts as //@ comment blocks in the guarded file verif_contracts.go, verification conditions generated by forward symbolic execution of go/ssa (naive form) of the current /repo tree with state merging, loop invariants / two-state step clauses and modular calls, bit-precise integers, Burstall heap, ghost channel/wire logs; obligations discharged by z3 5.1.0 / z3 4.8.12 / cvc5 1.0; counterexamples replayed on the real code with go test -overlay",
     }],
     "checks": [], "not_applicable": [],
     "notes": "selftest/run.sh runs the must-fail and harmless corpora; findings/run.sh re-runs the demonstrations of the repaired defects; known_findings.json records fixed defects by obligation name.",
    }
    for pid in sorted(CLAIMS):
        text, note = CLAIMS[pid]
        m["checks"].append({
         "property_id": pid, "quick_cmd": f"./bin/check {pid} quick", "thorough_cmd": f"./bin/check {pid} thorough",
         "evidence_file": f"/verif/evidence/{pid}.json", "replay_cmd_template": "./bin/check --replay {path}", "engine": "lncvc",
         "level_claimed": {"category": "proof", "text": text, "design_ref": f"DESIGN.md section 4, {pid}"},
         "level_note": TRUST + note, "technique": TECH,
        })
    for i in range(1, 21):
        pid = "C%02d" % i
        if pid in CLAIMS: continue
        m["not_applicable"].append({"property_id": pid, "reason": NA.get(pid, PENDING)})
    json.dump(m, open("/verif/MANIFEST.json", "w"), indent=1)

main()
