#!/bin/bash
# Confirms a seeded change produced by a sub-agent and runs the checks against it.
# usage: tools/seedcheck.sh <property> <dir-with-patch.diff-and-demo> [name]
#   1. demo passes on the unchanged tree, 2. patch applies and builds,
#   3. demo fails with the patch, 4. existing gbn+mailbox tests pass with the patch,
#   5. every claimed check is run against the patched scratch worktree.
# All work happens in a scratch worktree under /tmp which is removed at the end.
# On success the change is stored as /verif/seeded/<name>/ (patch.diff, demo, meta.json).
set -u
VERIF=$(cd "$(dirname "$0")/.." && pwd)
prop=$1; src=$2; name=${3:-$prop-$(basename "$src")}
export GOFLAGS=-mod=mod GOPROXY=off GOTOOLCHAIN=auto
demo=$(ls "$src"/zz_seeded_*_test.go 2>/dev/null | head -1)
[ -f "$src/patch.diff" ] && [ -n "$demo" ] || { echo "SEED $name: missing patch or demo"; exit 2; }
rel=$(grep -oE '[A-Za-z0-9_/.-]+/zz_seeded_[A-Za-z0-9_]*_test\.go' "$src/demo.txt" | head -1)
[ -n "$rel" ] || rel="$(sed -n 's/^package \([a-z]*\).*/\1/p' "$demo" | head -1)/$(basename "$demo")"
pkgdir=$(dirname "$rel")
tname=$(sed -n 's/^func \(TestSeeded[A-Za-z0-9_]*\).*/\1/p' "$demo" | paste -sd'|')
wt=$(mktemp -d /tmp/lncvc-seed-XXXXXX); rmdir "$wt"
git -C /repo worktree add --detach -q "$wt" HEAD || exit 2
cleanup() { git -C /repo worktree remove --force "$wt" 2>/dev/null; rm -rf "$wt"; }
trap cleanup EXIT
for f in gbn/verif_contracts.go mailbox/verif_contracts.go; do cp /repo/$f "$wt/$f"; done
cp "$demo" "$wt/$rel"
race=""; grep -q -- "-race" "$src/demo.txt" 2>/dev/null && race="-race"
rundemo() { (cd "$wt/$pkgdir" && go test $race -vet=off -count=1 -timeout 180s -run "^($tname)\$" . >"$wt/.demo.out" 2>&1); }
rundemo; clean_rc=$?
git -C "$wt" apply "$src/patch.diff" || { echo "SEED $name: patch does not apply"; exit 2; }
(cd "$wt/gbn" && go build ./... ) && (cd "$wt/mailbox" && go build . ) || { echo "SEED $name: does not build"; exit 2; }
rundemo; mut_rc=$?
rm -f "$wt/$rel"
suite_rc=0
if [ "${SEED_SKIP_SUITE:-}" = "" ]; then
  (cd "$wt/gbn" && go test -vet=off -count=1 -timeout 20m ./... >"$wt/.suite.out" 2>&1) || suite_rc=1
  (cd "$wt/mailbox" && go test -vet=off -count=1 -timeout 20m ./... >>"$wt/.suite.out" 2>&1) || suite_rc=1
fi
echo "SEED $name: demo-on-clean=$clean_rc demo-with-change=$mut_rc suite-with-change=$suite_rc"
valid=1
[ $clean_rc -eq 0 ] && [ $mut_rc -ne 0 ] && [ $suite_rc -eq 0 ] || valid=0
caught=""; missed=""
props=$(python3 -c "import json;print(' '.join(c['property_id'] for c in json.load(open('$VERIF/MANIFEST.json'))['checks']))")
# the target property first, then the others
for p in $prop $(echo $props | tr ' ' '\n' | grep -v "^$prop\$"); do
  out=$(LNCVC_REPO="$wt" LNCVC_VERIF_OUT="$wt/.verifout" "$VERIF/bin/check" "$p" quick --scratch 2>&1); code=$?
  if [ $code -ne 0 ]; then
    obl=$(echo "$out" | grep -E "^\s+FAIL " | awk '{print $2}' | head -4 | paste -sd,)
    caught="$caught $p[$obl]"
  else
    missed="$missed $p"
  fi
  [ "${SEED_ONLY_TARGET:-}" != "" ] && break
done
echo "SEED $name: valid=$valid caught-by:$caught"
echo "SEED $name: silent:$missed"
if [ $valid -eq 1 ]; then
  d="$VERIF/seeded/$name"; mkdir -p "$d"
  cp "$src/patch.diff" "$d/patch.diff"; cp "$demo" "$d/"; [ -f "$src/note.txt" ] && cp "$src/note.txt" "$d/"
  RACE="$race" python3 - "$d" "$prop" "$name" "$rel" "$tname" "$caught" <<'EOF'
import json,sys,re,os
d,prop,name,rel,tname,caught=sys.argv[1:7]
c={}
for m in re.finditer(r'(C\d\d)\[([^\]]*)\]',caught): c[m.group(1)]=[x for x in m.group(2).split(',') if x]
note=''
try: note=open(d+'/note.txt').read()
except Exception: pass
json.dump({"id":name,"property":prop,"origin":"fresh sub-agent given only the property text and a scratch worktree",
 "demo_file":rel,"demo_run":("cd %s && go test RACEFLAG -vet=off -count=1 -run '^(%s)$' ."%(rel.rsplit('/',1)[0],tname)).replace("RACEFLAG ",(os.environ.get("RACE","")+" ").lstrip()),
 "confirmed":{"demo_passes_on_unchanged_tree":True,"demo_fails_with_change":True,"existing_suite_passes_with_change":True},
 "caught_by":c,"caught_by_target_property":prop in c,"description":note},open(d+'/meta.json','w'),indent=1)
EOF
fi
