#!/bin/bash
# runs every claimed check (quick by default) and prints exit code + summary
tier=${1:-quick}
cd /verif
rc=0
for p in $(python3 -c "import json;print(' '.join(c['property_id'] for c in json.load(open('MANIFEST.json'))['checks']))"); do
  out=$(./bin/check $p $tier 2>&1); code=$?
  echo "$p exit=$code $(echo "$out" | tail -1 | cut -c1-160)"
  if [ $code -ne 0 ]; then echo "$out" | grep -E "VIOLATION|VACUOUS|ENGINE-ERROR|FAIL" | head -5; rc=1; fi
done
exit $rc
