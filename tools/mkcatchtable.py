#!/usr/bin/env python3
"""Regenerates the table 'which check catches which change' in DESIGN.md
(between the markers <!-- CATCH-TABLE:BEGIN --> and <!-- CATCH-TABLE:END -->)
from /verif/seeded/*/meta.json (changes produced by sub-agents and confirmed)
and /verif/selftest/mutants/*.expect (the must-fail corpus written while
building the checks)."""
import json, glob, os, re

def first_line(s):
    for l in s.splitlines():
        l = l.strip()
        if l:
            return l
    return ""

rows = []
for m in sorted(glob.glob('/verif/seeded/*/meta.json')):
    d = json.load(open(m))
    desc = first_line(d.get('description', ''))[:150].replace('|', '/')
    caught = d.get('caught_by', {})
    obl = '; '.join('%s: %s' % (p, ', '.join(sorted(set(re.sub(r'#\d+$', '', o) for o in os_))[:2])) for p, os_ in sorted(caught.items())) or 'not caught'
    rows.append((d['id'], d['property'], desc, obl))

out = ['| seeded change | property | what it does | caught by (check: failing obligation) |', '|---|---|---|---|']
for r in rows:
    out.append('| %s | %s | %s | %s |' % r)
out.append('')
out.append('Must-fail corpus written while building the checks (`selftest/mutants`, run by `selftest/run.sh`): each entry is caught by the property named, on an obligation containing the text given.')
out.append('')
out.append('| mutant | property | expected failing obligation |')
out.append('|---|---|---|')
for e in sorted(glob.glob('/verif/selftest/mutants/*.expect')):
    t = open(e).read()
    p = re.search(r'property: (.*)', t).group(1)
    o = re.search(r'obligation: (.*)', t).group(1)
    out.append('| %s | %s | %s |' % (os.path.basename(e)[:-7], p, o))
table = '\n'.join(out)
p = '/verif/DESIGN.md'
s = open(p).read()
a, b = '<!-- CATCH-TABLE:BEGIN -->', '<!-- CATCH-TABLE:END -->'
if a in s and b in s:
    s = s[:s.index(a) + len(a)] + '\n' + table + '\n' + s[s.index(b):]
    open(p, 'w').write(s)
    print('table updated: %d seeded, %d mutants' % (len(rows), len(glob.glob('/verif/selftest/mutants/*.expect'))))
else:
    print(table)
