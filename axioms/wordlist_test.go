package mailbox

// Exhaustive check of the two facts about the aezeed word tables that the C17
// contracts assume as axioms (a complete, finite check on the real tables).

import (
	"testing"

	"github.com/lightningnetwork/lnd/aezeed"
)

func TestLncvcAxiomWordList(t *testing.T) {
	if len(aezeed.DefaultWordList) != 2048 {
		t.Fatalf("AXIOM VIOLATED: len(DefaultWordList) = %d", len(aezeed.DefaultWordList))
	}
	for i, w := range aezeed.DefaultWordList {
		j, ok := aezeed.ReverseWordMap[w]
		if !ok || j != i {
			t.Fatalf("AXIOM VIOLATED: ReverseWordMap[DefaultWordList[%d]] = %d, %v", i, j, ok)
		}
	}
	if aezeed.BitsPerWord != 11 {
		t.Fatalf("AXIOM VIOLATED: BitsPerWord = %d", aezeed.BitsPerWord)
	}
}
