#!/bin/bash
# Must-fail corpus (selftest/mutants): property-breaking changes that still
# compile; each must make the named property's check fail on the expected
# obligation. Harmless corpus (selftest/harmless): behaviour-preserving or
# property-preserving edits; each must still verify.
# Changes are applied to a scratch worktree of /repo outside /repo and /verif.
# usage: selftest/run.sh [name ...]
set -u
VERIF=$(cd "$(dirname "$0")/.." && pwd)
cd "$VERIF"
want_names=("$@")
fail=0
resfile=$(mktemp)
run_one() {
  kind=$1; n=$2
  p="$VERIF/selftest/$kind/$n.patch"
  meta="$VERIF/selftest/$kind/$n.expect"
  props=$(sed -n 's/^property: //p' "$meta")
  want=$(sed -n 's/^obligation: //p' "$meta")
  wt=$(mktemp -d /tmp/lncvc-mutant-XXXXXX); rmdir "$wt"
  git -C /repo worktree add --detach -q "$wt" HEAD || { echo "worktree failed"; exit 2; }
  for f in gbn/verif_contracts.go mailbox/verif_contracts.go; do [ -f /repo/$f ] && cp /repo/$f "$wt/$f"; done
  if ! git -C "$wt" apply "$p"; then echo "$kind $n: patch does not apply"; fail=1; git -C /repo worktree remove --force "$wt"; return; fi
  for prop in $props; do
    out=$(LNCVC_REPO="$wt" LNCVC_VERIF_OUT="$wt/.verifout" "$VERIF/bin/check" "$prop" quick --scratch 2>&1)
    code=$?
    if [ "$kind" = mutants ]; then
      if [ $code -eq 1 ] && { echo "$out" | grep -q "FAIL .*$want" || { [ "$want" = ANY ] && echo "$out" | grep -q "^VIOLATION property=$prop "; }; }; then
        echo "MUTANT $n: caught by $prop ($want)"
      else
        echo "MUTANT $n: NOT caught by $prop (exit $code)"; echo "$out" | tail -5; echo fail >> "$resfile"
      fi
    else
      if [ $code -eq 0 ]; then echo "HARMLESS $n: $prop still verifies"; else echo "HARMLESS $n: FALSE ALARM on $prop"; echo "$out" | grep -E "FAIL|VIOLATION|ERROR" | head -5; echo fail >> "$resfile"; fi
    fi
  done
  git -C /repo worktree remove --force "$wt"
}
for kind in mutants harmless; do
  for f in selftest/$kind/*.patch; do
    [ -f "$f" ] || continue
    n=$(basename "$f" .patch)
    if [ ${#want_names[@]} -gt 0 ]; then
      skip=1; for w in "${want_names[@]}"; do [ "$w" = "$n" ] && skip=0; done
      [ $skip -eq 1 ] && continue
    fi
    run_one $kind "$n" &
    # limited parallelism
    while [ $(jobs -r | wc -l) -ge 3 ]; do sleep 0.2; done
  done
done
wait
[ -s "$resfile" ] && fail=1
rm -f "$resfile"
exit $fail
