#!/bin/bash
# usage: mkmut.sh <kind: mutants|harmless> <name> "<props>" "<obligation-substring>" <file> <python-replace-expr-old> <new>
# creates a patch from a textual replacement in a scratch worktree
set -eu
kind=$1; name=$2; props=$3; obl=$4; file=$5; old=$6; new=$7
wt=$(mktemp -d /tmp/lncvc-mk-XXXXXX); rmdir "$wt"
git -C /repo worktree add --detach -q "$wt" HEAD
python3 - "$wt/$file" "$old" "$new" <<'PY'
import sys
p,old,new=sys.argv[1:4]
s=open(p).read()
if s.count(old)!=1:
    print("pattern occurs",s.count(old),"times"); sys.exit(3)
open(p,'w').write(s.replace(old,new))
PY
(cd "$wt" && go build ./... >/dev/null 2>&1 || (cd $(dirname $file) && go build . ) ) || { echo "mutant $name does not compile"; git -C /repo worktree remove --force "$wt"; exit 4; }
git -C "$wt" diff > /verif/selftest/$kind/$name.patch
printf "property: $props\nobligation: $obl\n" > /verif/selftest/$kind/$name.expect
git -C /repo worktree remove --force "$wt"
echo "created $kind/$name"
